"""Shared input proposal for the cipher checks (C05, C06, C07, C10, C17): structured + seeded random keys and blocks.
Inputs only - every expected state comes from the TLA+ cipher machines."""


def aes_inputs(rng, nk_per_size, nb, sizes=(16, 24, 32)):
    """FIPS-197 Appendix C examples first (cases 1..3), then a grid keys x blocks per key size (so that the four
    broadcasting shapes can be formed from behaviours TLC computed)."""
    kat = [{'key': list(range(n)), 'block': [0x11 * i for i in range(16)]} for n in (16, 24, 32)]
    grid = {}
    cases = list(kat)
    for n in sizes:
        keys = [[0] * n, [255] * n, [1 << (i % 8) if i == 3 else 0 for i in range(n)]][:max(0, min(3, nk_per_size - 1))]
        while len(keys) < nk_per_size:
            keys.append([rng.randint(0, 255) for _ in range(n)])
        blocks = [[0] * 16, [0x80 if i == 15 else 0 for i in range(16)]][:max(0, min(2, nb - 1))]
        while len(blocks) < nb:
            blocks.append([rng.randint(0, 255) for _ in range(16)])
        for ki, k in enumerate(keys):
            for bi, b in enumerate(blocks):
                grid[(n, ki, bi)] = len(cases)
                cases.append({'key': k, 'block': b})
    return cases, grid
