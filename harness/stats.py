"""Shared plumbing of the statistics checks (C03, C04, C12, C13, C14): run the enumeration / case specifications,
evaluate the certificates TLC emits (arithmetic only) and derive comparison tolerances from the data's own
conditioning (never an ad-hoc constant): a float result may differ from the exact value by
    c * eps(precision) * kappa * |value|   (+ the same absolutely, scaled by the result's natural magnitude)
where kappa is the cancellation factor of the sums the code forms."""
import math
import os
from fractions import Fraction

import numpy as np

from . import tlc
from .disthist import write_json

C_TOL = 64


def enum_run(chk, kind, maxn, minn, xvals, vvals, classes, gen, invariants, label, workers=8):
    inv = list(invariants) + (['Emit'] if gen else [])
    r = tlc.run('StatsEnum', cfg_text=tlc.cfg(constants={'Kind': kind, 'MaxN': maxn, 'MinN': minn, 'XVals': set(xvals), 'VVals': set(vvals), 'Gen': gen},
                                            invariants=inv), defs={'Classes': tlc.tla(list(classes))}, workers=1 if gen else workers)
    chk.add_tlc(label, r)
    if r.violated:
        raise tlc.TLCError(f'StatsEnum {label}: model lemma violated {r.violated}\n' + '\n'.join(r.error_trace[:40]))
    return r


def cases_run(chk, module, cases, invariants, label, extra_env=None):
    path = write_json(cases)
    try:
        env = {'CASES': path}
        env.update(extra_env or {})
        r = tlc.run(module, cfg_text=tlc.cfg(invariants=list(invariants) + ['Emit']), env=env, workers=1)
    finally:
        os.unlink(path)
    chk.add_tlc(label, r)
    if r.violated:
        raise tlc.TLCError(f'{module} {label}: model lemma violated {r.violated}\n' + '\n'.join(r.error_trace[:40]))
    out = {}
    for e in r.emits():
        out[e['case'] - 1] = e['res']
    if len(out) != len(cases):
        raise tlc.TLCError(f'{module} {label}: {len(out)} results for {len(cases)} cases')
    return [out[i] for i in range(len(cases))]


def frac(r):
    """spec rational <<p,q>> -> Fraction, or None for NaN; infinities are returned as +-inf floats"""
    p, q = r
    if q == 0:
        return None if p == 0 else math.copysign(float('inf'), p)
    return Fraction(p, q)


def eps_of(precision):
    return float(np.finfo(np.dtype(precision)).eps)


def pearson_expect(cert, ps):
    """(value or None for NaN, tolerance factor kappa) for r = num/sqrt(dx*dy)"""
    num, dx, dy = cert
    if dx == 0 or dy == 0:
        return None, 0.0
    n = len(ps)
    r = num / math.sqrt(dx * dy)
    sxx = sum(x * x for x, _ in ps)
    syy = sum(y * y for _, y in ps)
    sxy = sum(abs(x * y) for x, y in ps)
    sx = sum(abs(x) for x, _ in ps)
    sy = sum(abs(y) for _, y in ps)
    mag = (n * sxy + sx * sy) / math.sqrt(dx * dy) + abs(r) * (n * sxx / dx + n * syy / dy) + abs(r) + 1e-300
    return r, mag


def dom_expect(cert, scale=1.0):
    s1, n1, s0, n0 = cert
    if n1 == 0 or n0 == 0:
        return None, 0.0
    v = float(Fraction(s1, n1) - Fraction(s0, n0)) * scale
    mag = (abs(s1) / n1 + abs(s0) / n0) * scale + abs(v)
    return v, mag


def class_kappa(ps, classes):
    """cancellation factor of the class statistics: (sum of squares) / (smallest of the non-zero SSB, SSW, SST)"""
    d = [(Fraction(x), v) for x, v in ps if v in classes]
    if not d:
        return 1.0
    n = len(d)
    m = sum(x for x, _ in d) / n
    sq = sum(x * x for x, _ in d) + 1
    sst = sum((x - m) ** 2 for x, _ in d)
    ssw = Fraction(0)
    for cv in set(v for _, v in d):
        xs = [x for x, v in d if v == cv]
        mk = sum(xs) / len(xs)
        ssw += sum((x - mk) ** 2 for x in xs)
    ssb = sst - ssw
    k = 1.0
    for q in (sst, ssw, ssb):
        if q != 0:
            k = max(k, float(sq / q))
    return k * n


def agree(got, want, mag, precision, c=C_TOL):
    """got: float from the code; want: exact value (None = NaN); mag: magnitude for the absolute envelope."""
    if want is None:
        return bool(np.isnan(got))
    if isinstance(want, float) and math.isinf(want):
        return bool(got == want)
    if np.isnan(got) or np.isinf(got):
        return False
    w = float(want)
    tol = c * eps_of(precision) * (abs(w) + mag)
    return abs(float(got) - w) <= tol
