"""History engine shared by the distinguisher checks (C01, C16, C11, ...):
cases -> TLC (exhaustive histories, invariants) -> TLC generation (EMIT one record per history) -> replay on real
objects with the projection compared after every call; and the reverse direction: executions of real objects
recorded and validated by TLC against specs/DistinguisherTrace.tla."""
import json
import os
import random
import tempfile

import numpy as np

from . import tlc
from .dist import Adapter, memoise_lut


def cfg_text(maxb, maxc, maxr, hist, invariants=True):
    lines = ['SPECIFICATION Spec', f'CONSTANTS MaxBatches = {maxb}', f'          MaxComputes = {maxc}',
             f'          MaxRejects = {maxr}', f'          RecordHist = {"TRUE" if hist else "FALSE"}']
    if hist:
        lines += ['INVARIANT Emit']
    if invariants:
        lines += ['INVARIANT StateIsFunctionOfPrefix', 'INVARIANT CountMatches', 'INVARIANT InitedIffFed',
                  'PROPERTY ComputePure', 'PROPERTY RejectPure']
    lines += ['CHECK_DEADLOCK FALSE']
    return '\n'.join(lines) + '\n'


def base_cfg(kind, S=1, W=1, classes=(0, 1, 2), lo=0, width=2, nb=2, tpl=None, ainv=None, **extra):
    c = {'kind': kind, 'S': S, 'W': W, 'classes': list(classes), 'lo': lo, 'width': width, 'nb': nb,
         'tpl': tpl if tpl is not None else [[0] * S for _ in classes],
         'ainv': ainv if ainv is not None else [[1 if a == b else 0 for b in range(S)] for a in range(S)]}
    c.update(extra)
    return c


def random_rows(rng, c, n, tmax=15, tmin=0, dvals=None):
    k = c['kind']
    if dvals is None:
        dvals = {'cpa': list(range(0, 9)), 'dpa': [0, 1], 'ttest': [0]}.get(k, list(c['classes']))
    return [{'t': [rng.randint(tmin, tmax) for _ in range(c['S'])], 'd': [rng.choice(dvals) for _ in range(c['W'])]} for _ in range(n)]


def write_json(obj):
    fd, path = tempfile.mkstemp(prefix='verif_cases_', suffix='.json')
    with os.fdopen(fd, 'w') as f:
        json.dump(obj, f)
    return path


def explore(chk, cases, maxb, maxc, maxr, label, workers=8):
    """(M) exhaustive exploration of all histories over the cases, P-invariants checked in every state."""
    path = write_json(cases)
    try:
        r = tlc.run('Distinguisher', cfg_text=cfg_text(maxb, maxc, maxr, False), env={'CASES': path}, workers=workers)
    finally:
        os.unlink(path)
    chk.add_tlc(f'MC:{label}', r)
    if r.violated:
        raise tlc.TLCError(f'model invariant violated in Distinguisher ({r.violated}): the mechanism model does not satisfy P\n'
                           + '\n'.join(r.error_trace[:60]))
    return r


def generate(chk, cases, maxb, maxc, maxr, label):
    """(G) all histories with expected state after every step; returns list of (case index, hist)."""
    path = write_json(cases)
    try:
        r = tlc.run('Distinguisher', cfg_text=cfg_text(maxb, maxc, maxr, True, invariants=False), env={'CASES': path}, workers=1)
    finally:
        os.unlink(path)
    chk.add_tlc(f'GEN:{label}', r)
    recs = r.emits()
    # keep maximal histories only (every prefix is checked step by step during the replay of its extensions)
    by_case = {}
    for e in recs:
        key = tuple((h['op'], h['k']) for h in e['hist'])
        by_case.setdefault(e['case'], {})[key] = e['hist']
    out = []
    for ci, hs in sorted(by_case.items()):
        keys = set(hs)
        prefixes = set()
        for k in keys:
            for i in range(len(k)):
                prefixes.add(k[:i])
        for k in sorted(keys - prefixes):
            out.append((ci - 1, hs[k]))
    return out


def replay(case, hist, precision, pres, sub=None, fault_fn=None, compare_snapshots=True, auto=False):
    """Replay one spec history on a fresh real object. Returns (list of disagreement dicts, final result or None, adapter)."""
    c, rows = case['c'], case['rows']
    ad = Adapter(c, precision, pres, sub=sub, partitions_auto=auto)
    rep = case.get('rep', 1)         # every batch presented rep times: all accumulators and the count scale by rep (they are sums over the traces)
    pos = 0
    bad = []
    last_res = None
    prev_op = None
    for step, h in enumerate(hist):
        op = h['op']
        before = ad.snapshot() if compare_snapshots else None
        try:
            if op == 'update':
                ad.update(rows[pos:pos + h['k']] * rep)
                pos += h['k']
                if ad.input_modified:
                    bad.append({'step': step, 'clause': f'update leaves the caller\'s {ad.input_modified} array as it was given'})
                    return bad, last_res, ad
                if ad.side_violation:
                    bad.append({'step': step, 'clause': ad.side_violation})
                    return bad, last_res, ad
            elif op == 'compute':
                res = ad.compute()
                if prev_op == 'compute' and last_res is not None and not _same(res, last_res):
                    bad.append({'step': step, 'clause': 'compute twice without new data returns the same answer',
                                'got': _tolist(res), 'previous': _tolist(last_res)})
                last_res = res
                if compare_snapshots and ad.snapshot() != before:
                    bad.append({'step': step, 'clause': 'compute leaves the object state bit-identical'})
            elif op == 'compute_refused':
                try:
                    ad.compute()
                    bad.append({'step': step, 'clause': 'compute before any accepted trace is refused'})
                except Exception as ex:  # noqa
                    if compare_snapshots and ad.snapshot() != before:
                        bad.append({'step': step, 'clause': 'refused compute leaves the object state unchanged'})
            elif op == 'reject':
                fault = case['faults'][h['k'] - 1]
                raised = fault_fn(ad, fault, rows, pos)
                if not raised:
                    bad.append({'step': step, 'clause': f'fault {fault["name"]} is refused', 'fault': fault['name']})
                elif compare_snapshots and ad.snapshot() != before:
                    bad.append({'step': step, 'clause': 'rejected call leaves the object state bit-identical', 'fault': fault['name']})
        except Exception as ex:
            bad.append({'step': step, 'clause': f'{op} must not raise', 'error': f'{type(ex).__name__}: {ex}'[:300],
                        'fault_before': [case['faults'][x['k'] - 1]['name'] for x in hist[:step] if x['op'] == 'reject']})
            return bad, last_res, ad
        prev_op = op
        # projection vs spec state, after EVERY call
        try:
            proj = ad.projection()
        except ValueError as ex:
            bad.append({'step': step, 'clause': 'accumulators are the exact integer sums', 'error': str(ex)[:300]})
            return bad, last_res, ad
        if rep > 1:
            h = dict(h, acc=_scaled(h['acc'], rep), n=h['n'] * rep)
        if proj != h['acc']:
            diff = {k: {'spec': h['acc'][k], 'impl': proj[k]} for k in proj if proj[k] != h['acc'][k]}
            bad.append({'step': step, 'clause': f'state after {op} equals the specification state', 'diff': diff,
                        'after_fault': [case['faults'][x['k'] - 1]['name'] for x in hist[:step + 1] if x['op'] == 'reject']})
            return bad, last_res, ad
        if ad.n() != h['n']:
            bad.append({'step': step, 'clause': f'processed_traces after {op} equals the number of accepted traces',
                        'spec': h['n'], 'impl': ad.n(),
                        'after_fault': [case['faults'][x['k'] - 1]['name'] for x in hist[:step + 1] if x['op'] == 'reject']})
            return bad, last_res, ad
    return bad, last_res, ad


def _scaled(x, k):
    if isinstance(x, dict):
        return {a: _scaled(b, k) for a, b in x.items()}
    if isinstance(x, list):
        return [_scaled(b, k) for b in x]
    return x * k


def _tolist(x):
    if isinstance(x, dict):
        return {k: np.asarray(v).tolist() for k, v in x.items()}
    return np.asarray(x).tolist()


def _same(a, b):
    if isinstance(a, dict):
        return all(_same(a[k], b[k]) for k in a)
    a, b = np.asarray(a), np.asarray(b)
    return a.shape == b.shape and a.dtype == b.dtype and a.tobytes() == b.tobytes()


same_bits = _same


def one_shot(case, precision, pres, sub=None):
    ad = Adapter(case['c'], precision, pres, sub=sub)
    ad.update(case['rows'] * case.get('rep', 1))
    return ad.compute()


# ---- (V) record real executions, validate with TLC ---------------------------------------------------
def record_trace(rng, c, rows, precision, pres, sub=None, p_compute=0.35):
    """Drive a real object with a random split of rows and random compute calls; log every call at its return."""
    ad = Adapter(c, precision, pres, sub=sub)
    ev = []
    pos = 0

    def log(op, extra=None):
        e = {'op': op, 'acc': ad.projection(), 'n': ad.n(), 'inited': ad.inited()}
        if extra:
            e.update(extra)
        ev.append(e)
    while pos < len(rows):
        if rng.random() < p_compute:
            try:
                ad.compute()
                log('compute')
            except Exception:
                log('compute_refused')
        k = rng.randint(1, max(1, min(len(rows) - pos, 1 + len(rows) // 2)))
        ad.update(rows[pos:pos + k])
        log('update', {'rows': rows[pos:pos + k]})
        pos += k
    ad.compute()
    log('compute')
    return {'c': c, 'ev': ev}, ad


def validate_traces(chk, traces, label, module='DistinguisherTrace'):
    """Returns the set of accepted trace ids (1-based). Oversized integers make a trace unusable (counted, skipped)."""
    path = write_json(traces)
    try:
        r = tlc.run(module, module + '.cfg', env={'TRACES': path}, workers=1)
    finally:
        os.unlink(path)
    chk.add_tlc(f'TRACE:{label}', r)
    return set(r.emits('ACCEPT')), r


def diagnose_trace(trace, module='DistinguisherTrace'):
    """Longest matched prefix of a single rejected trace."""
    path = write_json([trace])
    try:
        r = tlc.run(module, module + '.cfg', env={'TRACES': path, 'DIAG': '1'}, workers=1)
    finally:
        os.unlink(path)
    at = [x[1] for x in r.emits('AT')]
    return max(at) - 1 if at else 0


def max_int(obj):
    if isinstance(obj, bool):
        return 0
    if isinstance(obj, int):
        return abs(obj)
    if isinstance(obj, dict):
        return max([max_int(v) for v in obj.values()] + [0])
    if isinstance(obj, (list, tuple)):
        return max([max_int(v) for v in obj] + [0])
    return 0
