"""C12 - classes are identified by value: order irrelevant, foreign values ignored, automatic class set contains the first batch.

(M) specs/PartitionsMC.tla: for EVERY first-batch maximum 0..300 the (repaired) threshold loop yields a class range that contains
    the maximum and is the smallest of 9/64/256 that does; maxima > 255 and negative minima are refused; the pinned `<=` loop is
    refuted (0, 9, 64).  specs/ClassId.tla: permuting the class list permutes the per-class state and nothing else, extra declared
    values stay empty, rows carrying only undeclared values contribute nothing.  specs/StatsEnum.tla (shared with C04): the
    ANOVA/NICV/SNR definitions AND the code's formulas are invariant under class order and extra classes (exhaustive small domain).
(G) automatic class sets on real ANOVA/NICV/SNR/MIA/template-build objects for first-batch maxima on both sides of every threshold,
    followed by batches with larger / undeclared values; every update/compute history over datasets with undeclared values and
    class lists in every order (gaps, values > 255) replayed with the state compared BY VALUE after each call; results of
    ANOVA/NICV/SNR/MIA for (order, permuted order, superset, undeclared rows removed) against the specification's value;
    TemplateAttack / TemplateDPAAttack: templates and static scores permuted with the classes, DPA scores unchanged.
"""
import itertools
import json
import random
from fractions import Fraction

import numpy as np

from .. import disthist as dh
from .. import stats as st
from .. import tlc
from ..dist import memoise_lut
from . import c04, c13, c14


def auto_model(chk):
    r = tlc.run('PartitionsMC', cfg_text=tlc.cfg(constants={'Variant': 'fixed', 'Gen': False}, invariants=['AutoContainsFirstBatch', 'RefusedOutside']), workers=4)
    chk.add_tlc('MC:auto-classes(fixed)', r)
    if r.violated:
        raise tlc.TLCError(f'PartitionsMC(fixed) violates {r.violated}')
    r2 = tlc.run('PartitionsMC', cfg_text=tlc.cfg(constants={'Variant': 'pinned', 'Gen': False}, invariants=['AutoContainsFirstBatch']), workers=1)
    chk.add_tlc('MC:auto-classes(pinned, must be refuted)', r2)
    if not r2.violated:
        raise tlc.TLCError('PartitionsMC lost sensitivity: the `<=` threshold loop is no longer refuted')
    r3 = tlc.run('PartitionsMC', cfg_text=tlc.cfg(constants={'Variant': 'fixed', 'Gen': True}, invariants=['Emit']), workers=1)
    chk.add_tlc('GEN:auto-classes', r3)
    return {(e['m'], e['mn']): e for e in r3.emits()}


def auto_replay(chk, table, rng):
    import scared
    maxima = [0, 1, 8, 9, 10, 63, 64, 65, 254, 255, 256, 300] if chk.tier == 'quick' else list(range(0, 12)) + list(range(60, 68)) + list(range(250, 260)) + [300]
    makers = {
        'ANOVA': lambda: scared.ANOVADistinguisher(), 'NICV': lambda: scared.NICVDistinguisher(precision='float64'), 'SNR': lambda: scared.SNRDistinguisher(),
        'MIA': lambda: scared.MIADistinguisher(bin_edges=[0, 8, 16], precision='float64'),
        'TPLB': lambda: type('TB', (scared.distinguishers.partitioned.PartitionedDistinguisherBase, scared.distinguishers.template._TemplateBuildDistinguisherMixin), {})(),
    }
    for m in maxima:
        for mn in (0, -1):
            spec = table[(m, mn)]
            for name, mk in makers.items():
                if chk.tier == 'quick' and name in ('NICV', 'SNR') and m not in (0, 9, 64):
                    continue
                o = mk()
                W = 1 if name == 'TPLB' else 2
                vals = sorted(set([m, m // 2, 0] if mn == 0 else [m, -1]))
                d1 = np.array([[vals[(i + w) % len(vals)] for w in range(W)] for i in range(len(vals) + 1)], dtype='int32')
                d1[0, 0] = m
                t1 = np.array([[rng.randint(0, 15), rng.randint(0, 15)] for _ in range(len(d1))], dtype='uint8')
                chk.count(('auto', name, m, mn), nontrivial=True)
                try:
                    o.update(t1, d1)
                    refused = False
                except ValueError:
                    refused = True
                ctx = {'property': 'C12', 'part': 'auto', 'object': name, 'first_batch_max': m, 'first_batch_min': mn, 'data': d1.tolist(), 'traces': t1.tolist()}
                if refused != spec['refused']:
                    chk.violation('auto:first batch outside 0..255 is refused, inside accepted', ctx, f'{name}: first-batch max {m} min {mn}: refused={refused}, specification {spec["refused"]}')
                    continue
                if refused:
                    continue
                parts = [int(x) for x in np.asarray(o.partitions)]
                missing = sorted(set(int(x) for x in d1.ravel()) - set(parts))
                if missing:
                    chk.violation(f'auto:class set contains every value of the first batch:max={m}', dict(ctx, partitions_len=len(parts), missing=missing),
                                  f'{name}: automatic class set (size {len(parts)}) lacks first-batch values {missing}')
                    continue
                if len(parts) != spec['size']:
                    chk.drift += 1
                # later batch with larger / undeclared values: they must have no effect; counts by value
                big = [v for v in (parts[-1] + 1, 300, 70000) if v not in parts]
                d2 = np.array([[big[i % len(big)] if (i + w) % 2 else vals[i % len(vals)] for w in range(W)] for i in range(4)], dtype='int32')
                t2 = np.array([[rng.randint(0, 15), rng.randint(0, 15)] for _ in range(4)], dtype='uint8')
                try:
                    o.update(t2, d2)
                except Exception as ex:
                    chk.violation('auto:later batch with undeclared values is accepted and ignored', dict(ctx, later=d2.tolist(), error=repr(ex)[:200]), f'{name}: {ex!r}'[:200])
                    continue
                alld = np.concatenate([d1, d2])
                allt = np.concatenate([t1, t2]).astype('float64')
                if name in ('ANOVA', 'NICV', 'SNR'):
                    cnt = np.asarray(o.counters)
                    sm = np.asarray(o.sum)
                    for w in range(W):
                        want = np.array([np.sum(alld[:, w] == v) for v in parts], dtype='float64')
                        wsum = np.array([allt[alld[:, w] == v, 0].sum() for v in parts])
                        if not np.array_equal(cnt[w], want) or not np.array_equal(sm[0, w], wsum):
                            chk.violation('auto:a trace contributes to the class equal to its value and to no class if undeclared', dict(ctx, later=d2.tolist(), word=w, counters=cnt[w].tolist()),
                                          f'{name}: per-class counters/sums differ from the by-value counts')
                            break
                elif name == 'TPLB':
                    want = np.array([np.sum(alld[:, 0] == v) for v in parts], dtype='float64')
                    if not np.array_equal(np.asarray(o._counters), want):
                        chk.violation('auto:a trace contributes to the class equal to its value and to no class if undeclared', dict(ctx, later=d2.tolist()), f'{name}: counters differ')
                else:
                    acc = np.asarray(o.accumulators)        # (S, B, C, W)
                    for w in range(W):
                        want = np.array([np.sum((alld[:, w] == v) & (allt[:, 0] >= 0) & (allt[:, 0] <= 16)) for v in parts], dtype='float64')
                        if not np.array_equal(acc[0, :, :, w].sum(axis=0), want):
                            chk.violation('auto:a trace contributes to the class equal to its value and to no class if undeclared', dict(ctx, later=d2.tolist(), word=w), f'{name}: histogram class totals differ')
                            break
            chk.traces_validated += 1
    chk.sample({'auto_class_set': {'first_batch_max': 9, 'specification_size': table[(9, 0)]['size']}})


ORDERS = [[5, 0, 300], [300, 5, 0], [0, 300, 5], [2, 0, 1], [1, 2, 0], [0, 1, 2, 9], [0, 2, 1, 3], [0, 6, 2, 3], [3, 1, 2, 0], [0, 1, 3], [1, 0]]


def histories(chk, rng):
    """state BY VALUE after every call, class lists in several orders, data with undeclared values"""
    cases = []
    n = 4
    for classes in (ORDERS[:3] + ORDERS[3:5] + ORDERS[6:9] if chk.tier == 'quick' else ORDERS + [list(p) for p in itertools.permutations([7, 3, 40])] + [list(p) for p in itertools.permutations([0, 1, 2, 3])]):
        und = [77, 65535] if max(classes) > 255 else [77, next(v for v in (1, 3, 4, 99) if v not in classes)]
        for kind, kw, combos in (('part', dict(S=2, W=2), [('float32', 'i16'), ('float64', 'f32q')]), ('mia', dict(S=1, W=2, lo=0, width=4, nb=3), [('uint32', 'u8')]),
                                 ('tplb', dict(S=2, W=1), [('float64', 'u8')]), ('tpld', dict(S=2, W=2, tpl=[[1, 2], [3, 1], [0, 2], [2, 2]][:len(classes)], ainv=[[2, 1], [1, 3]]), [('float64', 'i16')]),
                                 ('tplm', dict(S=2, W=1, tpl=[[1, 2], [3, 1], [0, 2], [2, 2]][:len(classes)], ainv=[[2, 1], [1, 3]]), [('float32', 'u8')])):
            c = dh.base_cfg(kind, classes=tuple(classes), **kw)
            dv = list(classes) + (und if kind not in ('tpld',) else [])
            rows = dh.random_rows(rng, c, n, tmax=12, dvals=dv)
            if kind in ('part', 'mia', 'tplb') and max(classes) <= 255 and len(cases) % 2 == 0:
                # signed data carrying undeclared NEGATIVE values (offset-removed intermediate values): they belong to no class
                rows[0]['d'][0] = -1
                rows[-1]['d'][-1] = -len(classes)
            cases.append({'label': f'{kind}{classes}', 'c': c, 'rows': rows, 'faults': [], 'combos': combos})
    tc = [{'c': x['c'], 'rows': x['rows'], 'faults': []} for x in cases]
    dh.explore(chk, tc, 2, 1, 0, 'histories(by value)')
    hs = dh.generate(chk, tc, 2, 1, 0, 'histories(by value)')
    for ci, h in hs:
        case = cases[ci]
        for prec, pres in case['combos']:
            for sub in (('anova', 'snr') if case['c']['kind'] == 'part' else (None,)):
                bad, res, ad = dh.replay(case, h, prec, pres, sub=sub)
                chk.count(('H', ci, [(e['op'], e['k']) for e in h], prec, sub), nontrivial=True)
                chk.traces_validated += 1
                if bad:
                    chk.violation(f'{case["c"]["kind"]}:state by value:{bad[0]["clause"]}', {'property': 'C12', 'part': 'history', 'case': tc[ci], 'history': h, 'precision': prec, 'presentation': pres,
                                                                                              'variant': sub, 'disagreements': bad}, f'{case["label"]} {prec}: {bad[0]["clause"]}')
    # (M) lemmas of ClassId on the same datasets
    lem = []
    for x in cases:
        k = len(x['c']['classes'])
        perm = list(range(2, k + 1)) + [1]
        lem.append({'c': x['c'], 'rows': x['rows'], 'perm': perm, 'extra': [11, 200]})
    path = dh.write_json(lem)
    r = tlc.run('ClassId', cfg_text=tlc.cfg(invariants=['PermutesState', 'ExtraClassesStayEmpty', 'UndeclaredRowsHaveNoEffect']), env={'CASES': path}, workers=4)
    chk.add_tlc('MC:class-identity lemmas', r)
    if r.violated:
        raise tlc.TLCError(f'ClassId violates {r.violated}')


def results(chk, rng):
    """ANOVA/NICV/SNR/MIA results under (order, permuted, superset, undeclared rows removed) == specification value (identical for all)."""
    n = 6 if chk.tier == 'quick' else 30
    pcases, mcases, groups = [], [], []
    for i in range(n):
        base = rng.choice([[5, 0, 300], [2, 0, 1], [7, 3, 40, 1], [0, 6, 2, 3], [0, 2, 1, 3]])
        perm = base[1:] + base[:1] if i % 2 else [base[0]] + base[1:-1][::-1] + [base[-1]]
        sup = base + [11, 200]
        S, W = rng.choice([(2, 1), (1, 2)])
        c0 = dh.base_cfg('part', S=S, W=W, classes=tuple(base))
        rows = dh.random_rows(rng, c0, rng.randint(5, 10), tmax=11, dvals=base + [77, next(v for v in (1, 4, 8) if v not in base)])
        rows += [{'t': [rng.randint(0, 11) for _ in range(S)], 'd': [cv] * W} for cv in base]      # no class empty
        kept = [r for r in rows if any(v in base for v in r['d'])]
        variants = [('order', base, rows), ('permuted', perm, rows), ('superset', sup, rows), ('undeclared-rows-removed', base, kept)]
        g = []
        for name, cl, rs in variants:
            pcases.append({'c': dh.base_cfg('part', S=S, W=W, classes=tuple(cl)), 'rows': rs})
            mcases.append({'c': {'S': S, 'W': W, 'classes': cl, 'edges': [0, 4, 8, 12]}, 'rows': rs})
            g.append(name)
        groups.append(g)
    pres = st.cases_run(chk, 'StatsCases', pcases, ['KMatchesP'], 'CASES:class-variants(part)')
    mres = st.cases_run(chk, 'MiaCases', mcases, ['TotalsAreCounts'], 'CASES:class-variants(mia)')
    for gi in range(n):
        ref_p, ref_m = pres[4 * gi], mres[4 * gi]
        for vi in range(4):
            idx = 4 * gi + vi
            # the specification itself must give the same value for every variant (else the spec is wrong: machinery error)
            if pres[idx]['f'] != ref_p['f'] or pres[idx]['nicv'] != ref_p['nicv'] or pres[idx]['snr'] != ref_p['snr']:
                raise tlc.TLCError('specification values differ between class-list variants')
            if [sorted(map(tuple, t)) for t in mres[idx]['terms']] != [sorted(map(tuple, t)) for t in ref_m['terms']]:
                raise tlc.TLCError('specification MI terms differ between class-list variants')
            case = pcases[idx]
            c, rows = case['c'], case['rows']
            t = np.array([r['t'] for r in rows], dtype='int16')
            d = np.array([r['d'] for r in rows], dtype='uint16')
            for metric in ('f', 'nicv', 'snr'):
                for prec in ('float32', 'float64'):
                    got = c04.run_obj(c04.CLS[metric], prec, t, d, c['classes'])
                    for j, r in enumerate(pres[idx][metric]):
                        w, s = j // c['S'], j % c['S']
                        ps = [(rr['t'][s], rr['d'][w]) for rr in rows]
                        want = st.frac(r)
                        chk.count(('R', gi, vi, metric, prec, j), nontrivial=True)
                        ok = st.agree(got[w, s], want, 0.0, prec, c=st.C_TOL * st.class_kappa(ps, c['classes'])) if want is not None else bool(np.isnan(got[w, s]))
                        if not ok:
                            chk.violation(f'{c04.CLS[metric]}:result unchanged by class order / extra classes / undeclared traces ({groups[gi][vi]})',
                                          {'property': 'C12', 'part': 'results', 'case': case, 'variant': groups[gi][vi], 'metric': metric, 'precision': prec, 'entry': [w, s],
                                           'got': float(got[w, s]), 'expected': None if want is None else float(want)},
                                          f'{c04.CLS[metric]} {groups[gi][vi]}: got {got[w, s]} expected {want}')
            mc = mcases[idx]
            before = len(chk.violations)
            c13.compare_case(chk, mc, mres[idx], t, d, np.array([0, 4, 8, 12], dtype='float64'), f'mia-{groups[gi][vi]}', ('M', gi, vi))
            for k in range(before, len(chk.violations)):
                pass
            chk.traces_validated += 1
    chk.sample({'class_variants': [(g, pcases[i]['c']['classes']) for i, g in enumerate(groups[0])]})


def templates(chk, rng):
    n = 4 if chk.tier == 'quick' else 16
    import scared
    cases, perms = [], []
    for i in range(n):
        base = rng.choice([[2, 0, 1], [5, 0, 300], [1, 0]])
        S = 1 + i % 2
        W = 2
        hi = 5
        build = [{'t': [rng.randint(0, hi) for _ in range(S)], 'd': [c]} for c in base for _ in range(2)] + \
                [{'t': [rng.randint(0, hi) for _ in range(S)], 'd': [rng.choice(base + [77])]} for _ in range(4)]
        match = [{'t': [rng.randint(0, hi) for _ in range(S)], 'd': [rng.choice(base) for _ in range(W)]} for _ in range(3)]
        for p in ([base, base[1:] + base[:1], list(reversed(base))]):
            cases.append({'c': {'S': S, 'W': W, 'classes': p, 'variant': 'fixed'}, 'build': build, 'match': match})
            perms.append(base)
    res = st.cases_run(chk, 'TplCases', cases, ['PInvLemma', 'KMatchesP'], 'CASES:template class orders')
    old = scared.Container._BATCH_SIZE
    try:
        for ci, (case, rs) in enumerate(zip(cases, res)):
            ref = res[ci - ci % 3]
            refc = cases[ci - ci % 3]['c']['classes']
            # specification sanity: per-class outputs are permuted, DPA scores identical
            pos = [refc.index(v) for v in case['c']['classes']]
            if [ref['tpl'][p] for p in pos] != rs['tpl'] or [ref['static'][p] for p in pos] != rs['static'] or ref['dpa'] != rs['dpa'] or ref['pooled'] != rs['pooled']:
                raise tlc.TLCError('specification: template outputs are not permuted with the class list')
            cb, cm = c14.containers(case, 'int16', 1.0)
            for which in ('static', 'dpa'):
                for prec in ('float64',) if chk.tier == 'quick' else ('float32', 'float64'):
                    scared.set_batch_size(2 if ci % 2 else None)
                    a = c14.attacks(case, cb, prec, which)
                    a.build()
                    ctx = {'case': case, 'which': which, 'batch_size': 2 if ci % 2 else None, 'trace_dtype': 'int16', 'scale': 1.0, 'key': ('T', ci, which, prec), 'part': 'templates'}
                    want_t = np.array([[float(Fraction(x[0], x[1])) for x in row] for row in rs['tpl']])
                    ok = c14.cmp(chk, 'templates follow the class list order (class identified by value)', a.templates, want_t, prec, 4, dict(ctx, mag=5.0), 'templates')
                    a.run(cm)
                    want_s = np.array([float(Fraction(x[0], x[1])) for x in rs['static' if which == 'static' else 'dpa']])
                    det = np.linalg.det(np.array([[float(Fraction(x[0], x[1])) for x in row] for row in rs['pooled']])) if case['c']['S'] == 2 else 1.0
                    if abs(det) < 1e-9:
                        continue
                    c14.cmp(chk, ('static template scores follow the class list order' if which == 'static' else 'template-DPA scores do not depend on the class list order'),
                            a.scores, want_s, prec, 4096, dict(ctx, mag=float(np.abs(10 - want_s).max()) + 10), f'{which} scores')
            chk.traces_validated += 1
    finally:
        scared.Container._BATCH_SIZE = old


def run(chk):
    memoise_lut()
    import numba
    numba.set_num_threads(2)
    rng = random.Random(chk.seed)
    chk.rule = ('automatic class sets: first-batch maxima on both sides of 0, 8/9, 63/64, 255 x minimum 0/-1 x {ANOVA, NICV, SNR, MIA, template build}; histories: every '
                'update/compute history (<= 2 batches) over datasets with undeclared values for class lists in rotated/permuted orders with gaps and values > 255, state compared by '
                'value; results: (order, permuted, superset, undeclared rows removed) x ANOVA/NICV/SNR/MIA x precision; templates: 3 class orders x static/DPA; one evaluation = one compared '
                'object state / result entry; all non-trivial (undeclared values and non-identity orders are present in every case)')
    chk.assumptions += ['template-DPA matching is exercised with declared hypothesis values only', 'class values within the supported range of the lookup table (0..131071)',
                        'harness memoises partitioned._define_lut_func per class list']
    table = auto_model(chk)
    auto_replay(chk, table, rng)
    histories(chk, rng)
    results(chk, rng)
    templates(chk, rng)
    many_classes(chk)


def many_classes(chk):
    """class lists far longer than a 16-bit position can index (the supported values go up to 131071): a trace is counted in the class EQUAL to its
    value - here, with classes declared as all values 0..39999 (ascending and descending), in the class whose position the value designates"""
    import scared
    vals = np.array([[5], [33000], [33000], [39999], [5], [32768], [32767], [65], [39999], [20000]], dtype='int32')
    t = np.arange(10, dtype='int16').reshape(10, 1) + 1
    for label, classes in (('ascending', np.arange(40000, dtype='int32')), ('descending', np.arange(39999, -1, -1, dtype='int32'))):
        for cls_ in (scared.SNRDistinguisher, scared.MIADistinguisher):
            kw = {'bin_edges': np.linspace(0, 12, 4)} if cls_ is scared.MIADistinguisher else {}
            o = cls_(partitions=classes, **kw)
            o.update(t[:6], vals[:6])
            o.update(t[6:], vals[6:])
            if cls_ is scared.MIADistinguisher:
                counts = np.asarray(o.accumulators)[0].sum(axis=0)[:, 0]
            else:
                counts = np.asarray(o.counters).reshape(-1)
            want = np.zeros(40000, dtype='int64')
            for v in vals[:, 0]:
                want[int(np.nonzero(classes == v)[0][0])] += 1
            chk.count(('many-classes', label, cls_.__name__), nontrivial=True)
            chk.traces_validated += 1
            if counts.shape != want.shape or not np.array_equal(counts.astype('int64'), want):
                badpos = np.nonzero(counts.astype('int64') != want)[0][:6].tolist() if counts.shape == want.shape else []
                chk.violation(f'{cls_.__name__}:a trace contributes to the class equal to its value (40000 declared classes)', {'property': 'C12', 'part': 'many', 'order': label, 'positions_differing': badpos},
                              f'{cls_.__name__} with 40000 declared classes ({label}): class counts differ at positions {badpos}')


def replay(chk, path):
    memoise_lut()
    rp = json.load(open(path))
    part = rp.get('part')
    if part == 'history':
        bad, res, ad = dh.replay(dict(rp['case']), rp['history'], rp['precision'], rp['presentation'], sub=rp['variant'])
        print('disagreements:', bad)
        if bad:
            print(f'VIOLATION property=C12 replay={path}')
            return 1
        return 0
    if part == 'auto':
        import scared
        o = scared.ANOVADistinguisher() if rp['object'] != 'MIA' else scared.MIADistinguisher(bin_edges=[0, 8, 16])
        d = np.array(rp['data'], dtype='int32')
        if rp['object'] == 'TPLB':
            d = d[:, :1]
        try:
            o.update(np.array(rp['traces'], dtype='uint8'), d)
        except ValueError as ex:
            print('refused:', ex)
            return 0
        missing = sorted(set(int(x) for x in d.ravel()) - set(int(x) for x in o.partitions))
        print('partitions size', len(o.partitions), 'missing first-batch values', missing)
        if missing:
            print(f'VIOLATION property=C12 replay={path}')
            return 1
        return 0
    print('replay of this case kind: re-run ./check C12 (results/templates cases are regenerated from the seed)')
    return 0
