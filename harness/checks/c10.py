"""C10 - key schedules conform and invert: AES from any window, DES from any round key.

(M) specs/AESKeys.tla: the code-shaped forward / backward expansion loops (K: seeding from the window, col % Nk, col % 4, Rcon
    index arithmetic) return exactly the window of the true FIPS schedule (P, module AES) for EVERY (col_in, col_out) of the
    bound, all three key sizes; specs/AESRun.tla (shared with C05): the schedule is recovered from every window of Nk words by
    the inverse recurrence.  specs/DESKeys.tla: total rotation 28 (C16||D16 = C0||D0), parity bits never reach a round key.
(V) the outputs of the real key_expansion for every (col_in, col_out), key_schedule and inv_key_schedule(round_in = 0..10) are
    judged by TLC against the true schedule; the keys returned by the real get_master_key from each of the 16 round keys are
    judged "same up to parity".
(G) DES key_schedule(key, interrupt_after_round = 0..15) against the schedule TLC computes (PC-1, cumulative shifts, PC-2),
    incl. all 64 single-bit keys.
"""
import json
import os
import random

import numpy as np

from .. import disthist as dh
from .. import tlc
from ..core import scribble


HELD = {}


def aes_part(chk, rng):
    import scared
    q = chk.tier == 'quick'
    keys = [list(range(16)), list(range(24)), list(range(32))]
    nrand = 1 if q else 6
    for n in (16, 24, 32):
        keys += [[rng.randint(0, 255) for _ in range(n)] for _ in range(nrand)]
    keys.append([0x2b, 0x7e, 0x15, 0x16, 0x28, 0xae, 0xd2, 0xa6, 0xab, 0xf7, 0x15, 0x88, 0x09, 0xcf, 0x4f, 0x3c])
    # (M) K = P for every triple
    path = dh.write_json({'keys': keys[:3] if q else keys[:6], 'recorded': []})
    try:
        r = tlc.run('AESKeys', cfg_text=tlc.cfg(constants={'Mode': 'model', 'MaxCol': 60, 'AStep': 5 if q else 1}, invariants=['KMatchesP']), env={'CASES': path}, workers=16, timeout=3000)
    finally:
        os.unlink(path)
    chk.add_tlc('MC:expansion loops = schedule window for every (col_in, col_out)', r)
    if r.violated:
        raise tlc.TLCError(f'AESKeys violates {r.violated}\n' + '\n'.join(r.error_trace[:12]))
    # first get the true schedules (from TLC) to build the windows the code is given
    from .c05 import run_machine
    cases = [{'key': k, 'block': [0] * 16} for k in keys]
    cases = [{'key': list(range(n)), 'block': [0x11 * i for i in range(16)]} for n in (16, 24, 32)] + cases       # KAT cases 1..3 required by AESRun
    beh = run_machine(chk, cases, 'MC+GEN:schedules (with window-recovery lemma)')
    recorded = []
    for ki, key in enumerate(keys):
        sched = beh[ki + 3]['sched']
        nk = len(key) // 4
        total = len(sched)
        flat = np.array(sched, dtype='uint8')           # (total, 4)
        full = (not q) or ki < 3
        a_values = range(0, total - nk + 1) if full else sorted(set(rng.sample(range(0, total - nk + 1), 6)) | {0, total - nk})
        for a in a_values:
            window = flat[a:a + nk].reshape(-1)
            for b in range(0, total + 1):
                out = scared.aes.key_expansion(window.astype(['uint8', 'int32', '>u2', 'int64'][(a + b) % 4]), col_in=a, col_out=b)
                recorded.append({'k': ki + 1, 'a': a, 'b': b, 'out': [int(x) for x in np.asarray(out).reshape(-1)], 'what': 'key_expansion'})
                scribble(out)
        ks = np.asarray(scared.aes.key_schedule(np.array(key, dtype=['uint8', 'int16', '>u4', 'int64'][ki % 4])))
        # the schedule obtained for the previous key of this size is still held by the caller: computing another one must not change it
        if HELD.get(nk) is not None and not np.array_equal(HELD[nk][0], HELD[nk][1]):
            chk.violation('key_schedule:a schedule returned earlier is not changed by later calls', {'property': 'C10', 'part': 'aes', 'key': key, 'previous_key': HELD[nk][2]},
                          f'aes.key_schedule: the schedule returned for {HELD[nk][2][:4]}... changed when the schedule of {key[:4]}... was computed')
        HELD[nk] = (np.asarray(scared.aes.key_schedule(np.array(key, dtype='uint8'))), ks.copy(), key)
        recorded.append({'k': ki + 1, 'a': 0, 'b': total, 'out': [int(x) for x in ks.reshape(-1)], 'what': 'key_schedule', 'shape': list(ks.shape)})
        scribble(ks)
        if nk == 4:
            for rin in range(11):
                inv = np.asarray(scared.aes.inv_key_schedule(flat[4 * rin:4 * rin + 4].reshape(-1), round_in=rin))
                recorded.append({'k': ki + 1, 'a': 0, 'b': total, 'out': [int(x) for x in inv.reshape(-1)], 'what': f'inv_key_schedule(round_in={rin})'})
                scribble(inv)
    # key batches: several keys at once must give each key's own window
    for n in (16, 24, 32):
        idx = [i for i, k in enumerate(keys) if len(k) == n][:3]
        nk = n // 4
        total = 4 * (nk + 7)
        for (a, b) in [(0, total), (total - nk, 0), (nk + 1, 3), (5, total - 2)]:
            wins = np.array([np.array(beh[i + 3]['sched'], dtype='uint8')[a:a + nk].reshape(-1) for i in idx])
            out = np.asarray(scared.aes.key_expansion(wins, col_in=a, col_out=b))
            for j, i in enumerate(idx):
                recorded.append({'k': i + 1, 'a': a, 'b': b, 'out': [int(x) for x in out[j].reshape(-1)], 'what': 'key_expansion(batch)'})
    per_key = [[] for _ in keys]
    pos = {}
    for i, rec in enumerate(recorded):
        per_key[rec['k'] - 1].append({'a': rec['a'], 'b': rec['b'], 'out': rec['out']})
        pos[(rec['k'], len(per_key[rec['k'] - 1]))] = i
    path = dh.write_json({'keys': keys, 'recorded': per_key})
    try:
        r2 = tlc.run('AESKeys', cfg_text=tlc.cfg(constants={'Mode': 'trace', 'MaxCol': 0, 'AStep': 1}, invariants=['Verdict']), env={'CASES': path}, workers=8, timeout=3000, heap='6g')
    finally:
        os.unlink(path)
    chk.add_tlc('TRACE:key_expansion / key_schedule / inv_key_schedule outputs', r2)
    got_keys = set()
    verd = {i: True for i in range(len(recorded))}
    for v in r2.emits('VERDICT'):
        k, bad = v['k'], v['bad']
        got_keys.add(k)
        for j in bad:
            verd[pos[(k, j)]] = False
    if got_keys != set(range(1, len(keys) + 1)):
        raise tlc.TLCError(f'AESKeys(trace): verdicts for keys {sorted(got_keys)} of {len(keys)}')
    for i, rec in enumerate(recorded):
        chk.count(('aes', i), nontrivial=rec['a'] != 0 or rec['b'] != 4 * (len(keys[rec['k'] - 1]) // 4 + 7))
        chk.traces_validated += 1
        if not verd[i]:
            direction = 'forward' if rec['a'] < rec['b'] else 'backward'
            chk.violation(f'{rec["what"].split("(")[0]}:returns exactly the corresponding part of the true schedule ({direction})',
                          {'property': 'C10', 'part': 'aes', 'key': keys[rec['k'] - 1], 'col_in': rec['a'], 'col_out': rec['b'], 'what': rec['what'], 'got': rec['out']},
                          f'{rec["what"]} AES-{len(keys[rec["k"] - 1]) * 8} col_in={rec["a"]} col_out={rec["b"]}: not the schedule window')
    chk.sample({'aes_key': keys[4], 'window_at': 7, 'expanded_to': 0})


def des_part(chk, rng):
    import scared
    q = chk.tier == 'quick'
    keys = [[0x13, 0x34, 0x57, 0x79, 0x9B, 0xBC, 0xDF, 0xF1], [0] * 8, [255] * 8]
    keys += [[(1 << (7 - b)) if i == byte else 0 for i in range(8)] for byte in range(8) for b in range(8)]      # every single-bit key
    keys += [[rng.randint(0, 255) for _ in range(8)] for _ in range(20 if q else 400)]
    path = dh.write_json({'keys': keys, 'recovered': []})
    try:
        r = tlc.run('DESKeys', cfg_text=tlc.cfg(constants={'Mode': 'sched'}, invariants=['FullRotation', 'ParityFree', 'Emit']), env={'CASES': path}, workers=1, timeout=3000)
    finally:
        os.unlink(path)
    chk.add_tlc('MC+GEN:DES schedules', r)
    if r.violated:
        raise tlc.TLCError(f'DESKeys violates {r.violated}')
    rk = {e['k'] - 1: e['rk'] for e in r.emits()}
    for ki, key in enumerate(keys):
        k = np.array(key, dtype=['uint8', 'int64', 'uint16', '>u4', 'int16'][ki % 5])          # the key bytes, whatever integer type carries them
        for i in (range(16) if ki < 70 else [rng.randint(0, 15), 15]):
            got = np.asarray(scared.des.key_schedule(k, interrupt_after_round=i))
            chk.count(('des', ki, i), nontrivial=True)
            if got.shape != (i + 1, 8) or got.tolist() != rk[ki][:i + 1]:
                chk.violation('des.key_schedule:equals PC-1 / shifts / PC-2 for every round', {'property': 'C10', 'part': 'des', 'key': key, 'interrupt_after_round': i, 'got': got.tolist(), 'expected': rk[ki][:i + 1]},
                              f'des.key_schedule({key}, interrupt_after_round={i})')
            scribble(got)
        chk.traces_validated += 1
    # batches of keys: fewer and more than 16 keys (the round axis has 16 entries), every interruption point; one row per key, in order
    for lo, hi in ((3, 9), (2, 3), (0, 17), (1, min(len(keys), 41))):
        batch = np.array(keys[lo:hi], dtype='uint8')
        for i in ([15, 0, 3, 14] if hi - lo > 1 else [15, 0]):
            gb = np.asarray(scared.des.key_schedule(batch) if i == 15 else scared.des.key_schedule(batch, interrupt_after_round=i))
            chk.count(('des-batch', lo, hi, i), nontrivial=True)
            if gb.tolist() != [rk[j][:i + 1] for j in range(lo, hi)]:
                chk.violation('des.key_schedule:key batches', {'property': 'C10', 'part': 'des', 'keys': batch.tolist(), 'interrupt_after_round': i, 'got_shape': list(gb.shape)},
                              f'des.key_schedule on a batch of {hi - lo} keys, interrupt_after_round={i}: shape {gb.shape}')
            scribble(gb)
    # more keys than any internal slicing (4096 + 150), cycling through the keys above: row j is the schedule of key j
    sel = [(7 * j + 3) % len(keys) for j in range(4096 + 150)]
    gb = np.asarray(scared.des.key_schedule(np.array(keys, dtype='uint8')[sel]))
    wantb = np.array([rk[j] for j in range(len(keys))], dtype='int64')[sel]
    chk.count(('des-batch-large', len(sel)), nontrivial=True)
    if gb.shape != wantb.shape or not np.array_equal(gb, wantb):
        badk = int(np.nonzero(np.any(gb.reshape(len(sel), -1) != wantb.reshape(len(sel), -1), axis=1))[0][-1]) if gb.shape == wantb.shape else -1
        chk.violation('des.key_schedule:key batches', {'property': 'C10', 'part': 'des', 'rows': len(sel), 'last_bad_row': badk, 'got_shape': list(gb.shape)}, f'des.key_schedule on a batch of {len(sel)} keys: row {badk} is not the schedule of its key')
    # get_master_key from every round key
    recovered = []
    nm = 2 if q else 12
    mk = [0, 1, 2] + list(range(67, 67 + nm - 1))            # known-answer key, all-zero key, all-one key (first / last candidate of the 256), random keys
    for ki in mk:
        key = np.array(keys[ki], dtype='uint8')
        pt = np.array([rng.randint(0, 255) for _ in range(8)], dtype='uint8')
        ct = scared.des.encrypt(pt, key)          # C06 ties encrypt to FIPS
        for rnd in (range(16) if ki in (0, 2) or not q else [0, 7, 15]):
            got = scared.des.get_master_key(np.array(rk[ki][rnd], dtype='uint8'), rnd, pt, ct)
            if got is None:
                chk.violation('get_master_key:returns a key from any single round key and one plaintext/ciphertext pair', {'property': 'C10', 'part': 'master', 'key': keys[ki], 'round': rnd}, f'get_master_key returned None (round {rnd})')
                continue
            recovered.append({'k': ki + 1, 'got': [int(x) for x in got], 'round': rnd})
    path = dh.write_json({'keys': keys, 'recovered': [{'k': x['k'], 'got': x['got']} for x in recovered]})
    try:
        r3 = tlc.run('DESKeys', cfg_text=tlc.cfg(constants={'Mode': 'recovered'}, invariants=['Emit']), env={'CASES': path}, workers=1, timeout=600)
    finally:
        os.unlink(path)
    chk.add_tlc('TRACE:get_master_key results', r3)
    verd = {i: ok for i, ok in r3.emits('VERDICT')}
    for i, rec in enumerate(recovered, 1):
        chk.count(('master', i), nontrivial=True)
        chk.traces_validated += 1
        if not verd.get(i, False):
            chk.violation('get_master_key:returned key is the original up to parity bits', {'property': 'C10', 'part': 'master', 'key': keys[rec['k'] - 1], 'round': rec['round'], 'got': rec['got']},
                          f'get_master_key(round {rec["round"]}) = {rec["got"]} for key {keys[rec["k"] - 1]}')
    chk.sample({'des_key': keys[0], 'round_key_1': rk[0][0]})


def run(chk):
    rng = random.Random(chk.seed)
    chk.rule = ('AES: FIPS example keys + seeded random keys of the three sizes; for each, every col_in in [0, total - Nk] x every col_out in [0, total] (quick: all for the example keys, 8 windows x all col_out for the '
                'others) with the window taken from the schedule TLC computed; each output judged by TLC; non-trivial = window not at column 0 or partial target.  DES: known-answer, all-zero, all-one, all 64 single-bit '
                'and random keys x interrupt_after_round 0..15; get_master_key from every round of several keys')
    chk.assumptions += ['key_schedule / inv_key_schedule values are compared after flattening (for a single key the functions return an extra leading dimension: a layout quirk outside the statement)',
                        'get_master_key is given a plaintext/ciphertext pair produced by scared.des.encrypt (tied to FIPS by C06)']
    aes_part(chk, rng)
    des_part(chk, rng)


def replay(chk, path):
    import scared
    rp = json.load(open(path))
    if rp.get('part') == 'des':
        got = np.asarray(scared.des.key_schedule(np.array(rp['key'], dtype='uint8'), interrupt_after_round=rp['interrupt_after_round'])).tolist()
        print('got', got[:2], '... expected', rp['expected'][:2])
        if got != rp['expected']:
            print(f'VIOLATION property=C10 replay={path}')
            return 1
        return 0
    print('re-run ./check C10 (AES windows and recovered keys are judged by TLC)')
    return 0
