"""C07 - ready-made selection functions predict the real cipher state under the true key.

(M) specs/SelAES.tla / SelDES.tla define, for each ready-made function, the local computation Hyp(input, guess, word), the
    round key its expected-key function designates, and Target: the word of the REAL cipher run (trail of the FIPS step
    machines AESRun / DESRun) the key word acts on.  On every behaviour (all key sizes) TLC checks the theorem
        Hyp(input, ExpectedKey[w], w) = Target(behaviour, w)      for every function and every word.
(G) for driver-proposed keys and batches of inputs: the code's output equals Hyp for EVERY guess and word (tables computed by
    TLC), shape (traces, guesses, words) on non-square batches; words selections (int, list, slice, array) and guess sub-ranges /
    permutations return exactly the corresponding slice; compute_expected_key equals the specification's round key; the
    true-key column equals Target read off the specification's trail; the decrypt-namespace functions behave as the encrypt-
    namespace functions they are documented to mirror.
"""
import json
import os
import random

import numpy as np

from .. import ciphers
from .. import disthist as dh
from .. import tlc
from . import c06

AES_FNS = ['FirstAddRoundKey', 'FirstSubBytes', 'LastAddRoundKey', 'LastSubBytes', 'DeltaRLastRounds']
DES_FNS = ['FirstAddRoundKey', 'FirstSboxes', 'FeistelRFirstRounds', 'DeltaRFirstRounds', 'LastAddRoundKey', 'LastSboxes', 'FeistelRLastRounds', 'DeltaRLastRounds']
AES_MIRROR = {'FirstAddRoundKey': 'LastAddRoundKey', 'LastAddRoundKey': 'FirstAddRoundKey', 'FirstSubBytes': 'LastSubBytes', 'LastSubBytes': 'FirstSubBytes', 'DeltaRFirstRounds': 'DeltaRLastRounds'}
DES_MIRROR = {'FirstAddRoundKey': 'LastAddRoundKey', 'LastAddRoundKey': 'FirstAddRoundKey', 'FirstSboxes': 'LastSboxes', 'LastSboxes': 'FirstSboxes', 'FeistelRFirstRounds': 'FeistelRLastRounds',
              'FeistelRLastRounds': 'FeistelRFirstRounds', 'DeltaRFirstRounds': 'DeltaRLastRounds', 'DeltaRLastRounds': 'DeltaRFirstRounds'}


SHARED = {}


def uses_ct(fn):
    return fn.startswith('Last') or fn.endswith('LastRounds')


def machines(chk, rng, q):
    cases, grid = ciphers.aes_inputs(rng, 2 if q else 6, 3 if q else 6)
    path = dh.write_json(cases)
    try:
        r = tlc.run('AESRun', cfg_text=tlc.cfg(invariants=['KnownAnswers', 'SelectionLemma', 'Emit']), env={'CASES': path}, workers=8, timeout=3000, heap='6g')
    finally:
        os.unlink(path)
    chk.add_tlc('MC+GEN:AES behaviours with the selection-function theorem', r)
    if r.violated:
        raise tlc.TLCError(f'AESRun violates {r.violated}')
    abeh = {e['case'] - 1: e for e in r.emits()}
    dcases, dgrid = c06.des_inputs(rng, 3 if q else 10, 4 if q else 6)
    dcases = [c for c in dcases if len(c['keys']) == 1]
    path = dh.write_json(dcases)
    try:
        r2 = tlc.run('DESRun', cfg_text=tlc.cfg(invariants=['KnownAnswer', 'SelectionLemma', 'Emit']), env={'CASES': path}, workers=8, timeout=3000, heap='6g')
    finally:
        os.unlink(path)
    chk.add_tlc('MC+GEN:DES behaviours with the selection-function theorem', r2)
    if r2.violated:
        raise tlc.TLCError(f'DESRun violates {r2.violated}')
    dbeh = {e['case'] - 1: e for e in r2.emits()}
    return cases, abeh, dcases, dbeh


def tables(chk, module, blocks, label):
    path = dh.write_json(blocks)
    try:
        r = tlc.run(module, cfg_text=tlc.cfg(invariants=['Emit']), env={'CASES': path}, workers=1, timeout=3000, heap='6g')
    finally:
        os.unlink(path)
    chk.add_tlc(label, r)
    return {(e['i'] - 1, e['fn']): np.array(e['tab'], dtype='int64') for e in r.emits()}


def check_fn(chk, cipher, fn, ns, inputs, tabs_idx, tabs, key, exp_key, targets, nguess, nwords, rng, gi=0):
    """inputs: list of input blocks (already plaintext or ciphertext as the function needs)"""
    import scared
    mod = getattr(getattr(scared, cipher).selection_functions, ns)
    cls = getattr(mod, fn)
    tag = 'ciphertext' if uses_ct(fn) == (ns == 'encrypt') else 'plaintext'
    # in the decrypt namespace the names mirror: a decrypt "First" function takes the ciphertext
    sf = cls()
    arr = np.array(inputs, dtype='uint8')
    full = np.asarray(sf(**{tag: arr}))
    held = full.copy()           # the caller keeps `full`
    # the next batch of the same size goes through the same function object and through a sibling function: what was returned for this batch stays what it was
    other = np.asarray(sf(**{tag: arr ^ 0x5A}))
    for n in [n for n in (AES_FNS if cipher == 'aes' else DES_FNS) if hasattr(mod, n)][:3]:
        getattr(mod, n)()(**{('ciphertext' if uses_ct(n) == (ns == 'encrypt') else 'plaintext'): arr ^ 0x33})
    chk.count((gi, cipher, ns, fn, 'held'), nontrivial=True)
    if not np.array_equal(full, held):
        chk.violation(f'{cipher}.{ns}.{fn}:the output of one call is not changed by later calls', {'property': 'C07', 'cipher': cipher, 'namespace': ns, 'function': fn, 'inputs': inputs}, f'{cipher}.{ns}.{fn}: the array returned for one batch was rewritten by a later call')
    elif other.shape == full.shape and np.array_equal(other, full):
        chk.violation(f'{cipher}.{ns}.{fn}:every guess column is the documented computation with that guess; shape (traces, guesses, words)', {'property': 'C07', 'cipher': cipher, 'namespace': ns, 'function': fn, 'inputs': inputs, 'note': 'different inputs, same output'}, f'{cipher}.{ns}.{fn}: output does not depend on the input')
    base_fn = fn if ns == 'encrypt' else (AES_MIRROR if cipher == 'aes' else DES_MIRROR)[fn]
    want = np.stack([tabs[(i, base_fn)] for i in tabs_idx])          # (n, guesses, words)
    ctx = {'cipher': cipher, 'namespace': ns, 'function': fn, 'inputs': inputs, 'key': key}
    chk.count((gi, cipher, ns, fn, 'table', len(inputs)), nontrivial=True)
    if full.shape != want.shape or not np.array_equal(full.astype('int64'), want):
        g = w = None
        if full.shape == want.shape:
            bad = np.argwhere(full.astype('int64') != want)[0]
            g, w = int(bad[1]), int(bad[2])
        chk.violation(f'{cipher}.{ns}.{fn}:every guess column is the documented computation with that guess; shape (traces, guesses, words)',
                      dict(ctx, property='C07', got_shape=list(full.shape), expected_shape=list(want.shape), first_bad_guess=g, first_bad_word=w), f'{cipher}.{ns}.{fn}: output differs from the specification table')
        return
    # custom tags, with decoy metadata fields literally named `data`, `key` and the default tag names
    ptag, ktag = 'my_input', 'my_key'
    kw_ = {('ciphertext_tag' if tag == 'ciphertext' else 'plaintext_tag'): ptag, 'key_tag': ktag}
    try:
        sf2 = cls(**kw_)
        decoy = (arr.astype('int64') * 7 + 3).astype('uint8')
        out2 = np.asarray(sf2(**{ptag: arr, 'data': decoy, tag: decoy, 'key': decoy[:1, :len(key)] if decoy.shape[1] >= len(key) else decoy[:1]}))
        chk.count((gi, cipher, ns, fn, 'tags'), nontrivial=True)
        if out2.shape != full.shape or not np.array_equal(out2, full):
            chk.violation(f'{cipher}.{ns}.{fn}:the function reads the field designated by its tag, whatever other metadata fields are present', dict(ctx, property='C07', tag=ptag), f'{cipher}.{ns}.{fn}: output changes when metadata also carries fields named data/key')
        if exp_key is not None:
            ek2 = np.asarray(sf2.compute_expected_key(**{ktag: np.array(key, dtype='uint8'), 'key': np.array(key, dtype='uint8')[::-1].copy(), 'data': decoy}))
            if ek2.tolist() != exp_key:
                chk.violation(f'{cipher}.{ns}.{fn}:compute_expected_key reads the key designated by key_tag', dict(ctx, property='C07', got=ek2.tolist(), expected=exp_key), f'{cipher}.{ns}.{fn}: expected key taken from another metadata field')
    except TypeError as ex:
        chk.violation(f'{cipher}.{ns}.{fn}:custom tags are accepted', dict(ctx, property='C07', error=repr(ex)[:200]), f'{cipher}.{ns}.{fn}: {ex!r}'[:200])
    # expected key and true-key column
    if exp_key is not None:
        # one long-lived selection-function object per function serves every key of the run (an object is not tied to the first key it saw)
        shared = SHARED.setdefault((cipher, ns, fn), cls())
        eks = np.asarray(shared.compute_expected_key(key=np.array(key, dtype='uint8')))
        chk.count((gi, cipher, ns, fn, 'expected_key(shared object)'), nontrivial=True)
        if eks.tolist() != exp_key:
            chk.violation(f'{cipher}.{ns}.{fn}:compute_expected_key returns the round key the function targets', dict(ctx, property='C07', got=eks.tolist(), expected=exp_key, note='object already used with another key'),
                          f'{cipher}.{ns}.{fn}: expected key differs when the selection-function object was used with another key before')
        ek = np.asarray(sf.compute_expected_key(key=np.array(key, dtype='uint8')))
        chk.count((gi, cipher, ns, fn, 'expected_key'), nontrivial=True)
        if ek.tolist() != exp_key:
            chk.violation(f'{cipher}.{ns}.{fn}:compute_expected_key returns the round key the function targets', dict(ctx, property='C07', got=ek.tolist(), expected=exp_key), f'{cipher}.{ns}.{fn}: expected key differs')
        elif targets is not None:
            for i in range(len(inputs)):
                col = [int(full[i, exp_key[w], w]) for w in range(nwords)]
                chk.count((gi, cipher, ns, fn, 'target', i), nontrivial=True)
                if col != targets[i]:
                    chk.violation(f'{cipher}.{ns}.{fn}:the hypothesis at the expected key word equals the word of the real cipher state', dict(ctx, property='C07', input_index=i, got=col, expected=targets[i]),
                                  f'{cipher}.{ns}.{fn}: true-key column is not the targeted cipher state')
    # words / guesses selections are slices of the full output
    sels = [('int', 3, 3), ('int-zero', 0, 0), ('list-zero', [0], [0]), ('list', [0, 5, 2], [0, 5, 2]), ('slice', slice(1, 6, 2), slice(1, 6, 2)), ('array', np.array([7, 0]), [7, 0]),
            ('list-contiguous-unordered', [2, 0, 1], [2, 0, 1]), ('array-descending', np.array([5, 4]), [5, 4]), ('array-all-reversed', np.arange(nwords)[::-1].copy(), list(range(nwords))[::-1]),
            ('int-negative', -2, -2), ('array-negative', np.array([-1, 3]), [-1, 3]), ('slice-negative', slice(-3, None), slice(-3, None)), ('array-negative-int8', np.array([1, -nwords], dtype='int8'), [1, -nwords])]
    for name, wsel, idx in sels:
        out = np.asarray(cls(words=wsel)(**{tag: arr}))
        ref = full[:, :, idx]
        chk.count((gi, cipher, ns, fn, 'words', name), nontrivial=True)
        if out.shape != ref.shape or not np.array_equal(out, ref):
            chk.violation(f'{cipher}.{ns}.{fn}:selecting words returns exactly the corresponding slice', dict(ctx, property='C07', words=str(wsel), got_shape=list(out.shape), expected_shape=list(ref.shape)), f'{cipher}.{ns}.{fn}: words={wsel}')
    perm = list(range(nguess))
    rng.shuffle(perm)
    for name, gsel in (('subrange', list(range(5, 5 + 7))), ('permutation', perm[:11])):
        out = np.asarray(cls(guesses=np.array(gsel, dtype='uint8'))(**{tag: arr}))
        ref = full[:, gsel, :]
        chk.count((gi, cipher, ns, fn, 'guesses', name), nontrivial=True)
        if out.shape != ref.shape or not np.array_equal(out, ref):
            chk.violation(f'{cipher}.{ns}.{fn}:a subset / permutation of guesses returns exactly the corresponding columns', dict(ctx, property='C07', guesses=gsel), f'{cipher}.{ns}.{fn}: guesses={gsel}')
    # as many guesses as traces (the two leading axes have the same length: only the values tell (traces, guesses) from (guesses, traces))
    n = len(inputs)
    for gsel in (list(range(n)), [(5 * j + 3) % nguess for j in range(n)]):
        out = np.asarray(cls(guesses=np.array(gsel, dtype='uint8'))(**{tag: arr}))
        ref = full[:, gsel, :]
        chk.count((gi, cipher, ns, fn, 'guesses', 'as many as traces', gsel[0]), nontrivial=n > 1)
        if out.shape != ref.shape or not np.array_equal(out, ref):
            chk.violation(f'{cipher}.{ns}.{fn}:a subset / permutation of guesses returns exactly the corresponding columns', dict(ctx, property='C07', guesses=gsel, note='as many guesses as traces'), f'{cipher}.{ns}.{fn}: {n} traces, guesses={gsel}')
    # a batch larger than any internal block: rows cycle through this batch, so do the rows of the output (row r depends on input r only)
    if gi % 3 == 0 and nguess * nwords <= 4096:
        big_n = 4096 + 150
        sel = [(7 * j + 1) % n for j in range(big_n)]
        gs = list(range(0, nguess, max(1, nguess // 8)))[:8]
        out = np.asarray(cls(guesses=np.array(gs, dtype='uint8'))(**{tag: arr[sel]}))
        ref = full[sel][:, gs, :]
        chk.count((gi, cipher, ns, fn, 'large batch'), nontrivial=True)
        if out.shape != ref.shape or not np.array_equal(out, ref):
            badrow = int(np.nonzero(np.any(out != ref, axis=(1, 2)))[0][-1]) if out.shape == ref.shape else -1
            chk.violation(f'{cipher}.{ns}.{fn}:every guess column is the documented computation with that guess; shape (traces, guesses, words)', dict(ctx, property='C07', rows=big_n, guesses=gs, first_bad_guess=None, last_bad_row=badrow),
                          f'{cipher}.{ns}.{fn}: batch of {big_n} traces, row {badrow} differs from the specification table')
    if arr.tolist() != [list(x) for x in inputs]:
        chk.violation(f'{cipher}.{ns}.{fn}:the metadata array is left as it was given', dict(ctx, property='C07'), f'{cipher}.{ns}.{fn}: the input array was modified')
    chk.traces_validated += 1


def run(chk):
    rng = random.Random(chk.seed)
    q = chk.tier == 'quick'
    chk.rule = ('behaviours: FIPS examples + structured + seeded random keys x blocks (AES-128/192/256, DES); TLC checks the theorem on each; for each function x namespace x key a batch of 1..6 inputs is run through '
                'the real function: full table for all guesses and words, expected key, true-key column vs the trail, 4 words selections, 2 guess selections; one evaluation = one compared output')
    chk.assumptions += ['keys are sampled; the theorem is checked by TLC on every sampled behaviour', 'DES functions: single DES (8-byte key) as in the ready-made functions']
    cases, abeh, dcases, dbeh = machines(chk, rng, q)
    # ---- AES: group behaviours by key
    bykey = {}
    for ci, c in enumerate(cases):
        bykey.setdefault(tuple(c['key']), []).append(ci)
    groups = list(bykey.items())
    blocks, owner = [], []
    for key, cis in groups:
        for ci in cis:
            blocks.append(cases[ci]['block'])                      # plaintext
            blocks.append(abeh[ci]['enc'][-1])                     # ciphertext
            owner.append(ci)
    tabs = tables(chk, 'SelAESCases', blocks, 'GEN:AES hypothesis tables (all guesses x words)')
    pos = {}
    for j, ci in enumerate(owner):
        pos[ci] = (2 * j, 2 * j + 1)
    from fractions import Fraction  # noqa
    for gi, (key, cis) in enumerate(groups):
        nr = len(key) // 4 + 6
        cis = cis[:1 + gi % 6]                                      # batches of 1..6 inputs
        sched = abeh[cis[0]]['sched']
        rk = lambda r: [b for w in sched[4 * r:4 * r + 4] for b in w]
        for ns in ('encrypt', 'decrypt'):
            names = AES_FNS if ns == 'encrypt' else list(AES_MIRROR)
            for fn in names:
                base = fn if ns == 'encrypt' else AES_MIRROR[fn]
                ct_in = uses_ct(base)
                idx = [pos[ci][1 if ct_in else 0] for ci in cis]
                ins = [blocks[i] for i in idx]
                exp = rk(nr) if ct_in else rk(0)
                tg = []
                for ci in cis:
                    tr = abeh[ci]['enc']
                    ct = tr[-1]
                    srsrc = [((w % 4) + 4 * (((w // 4) + (w % 4)) % 4)) for w in range(16)]
                    tg.append({'FirstAddRoundKey': tr[3], 'FirstSubBytes': tr[4], 'LastAddRoundKey': tr[4 * nr + 2],
                               'LastSubBytes': [tr[4 * nr - 1][srsrc[w]] for w in range(16)],
                               'DeltaRLastRounds': [ct[srsrc[w]] ^ tr[4 * nr - 1][srsrc[w]] for w in range(16)]}[base])
                check_fn(chk, 'aes', fn, ns, ins, idx, tabs, list(key), exp, tg, 256, 16, rng, gi)
    # ---- DES
    dblocks, downer = [], []
    for ci, c in enumerate(dcases):
        dblocks.append(c['block'])
        dblocks.append(dbeh[ci]['enc'][15][9])
        downer.append(ci)
    dtabs = tables(chk, 'SelDESCases', dblocks, 'GEN:DES hypothesis tables (all guesses x words)')
    dkeys = {}
    for ci, c in enumerate(dcases):
        dkeys.setdefault(tuple(c['keys'][0]), []).append(ci)
    for gi, (key, cis) in enumerate(dkeys.items()):
        cis = cis[:1 + gi % 4]
        rkw = dbeh[cis[0]]['rk'][0]
        for ns in ('encrypt', 'decrypt'):
            for fn in DES_FNS:
                base = fn if ns == 'encrypt' else DES_MIRROR[fn]
                ct_in = uses_ct(base)
                idx = [2 * downer.index(ci) + (1 if ct_in else 0) for ci in cis]
                ins = [dblocks[i] for i in idx]
                exp = rkw[15] if ct_in else rkw[0]
                tg = []
                for ci in cis:
                    tr = dbeh[ci]['enc']
                    tg.append({'FirstAddRoundKey': tr[0][2], 'FirstSboxes': tr[0][3], 'FeistelRFirstRounds': tr[0][7], 'DeltaRFirstRounds': tr[0][8],
                               'LastAddRoundKey': tr[15][2], 'LastSboxes': tr[15][3], 'FeistelRLastRounds': tr[13][7], 'DeltaRLastRounds': tr[14][8]}[base])
                check_fn(chk, 'des', fn, ns, ins, idx, dtabs, list(key), exp, tg, 64, 8, rng, gi)
    chk.sample({'aes_key': cases[3]['key'], 'plaintext': cases[3]['block'], 'target_FirstSubBytes': abeh[3]['enc'][4]})


def replay(chk, path):
    rp = json.load(open(path))
    print({k: rp[k] for k in ('cipher', 'namespace', 'function') if k in rp})
    print('re-run ./check C07 (tables and targets are recomputed by TLC from the seed)')
    return 0
