"""C20 - Synchronizer output is exactly the accepted traces, in order, with their own metadata; counters; single use.

(M) specs/Synchronizer.tla: the run loop with a nondeterministic user function (A = returns data, R = raises, N = returns None):
    for EVERY script up to MaxLen TLC checks that the output is the accepted subsequence in input order, processed = inputs,
    synchronized = accepted (also when everything is rejected), a second run changes nothing; a variant that takes the write
    index from `processed` is refuted (sensitivity).  The consecutive-error warning rule (limit 8, doubling) is part of the model.
(G) every script up to length 6 (8 thorough) and driver-proposed long scripts with failure runs of 7/8/15/16/31/32 are executed on a
    real Synchronizer (RAM input set, ETS output file in a scratch directory given as str and as Path, returned data of equal
    and of different length): output length, every output row's samples and ALL its metadata, both counters (also when run()
    cannot return a set), second run() raises SynchronizerError and changes nothing.  Warning counts are compared as model drift only.
"""
import json
import os
import random
import shutil
import tempfile
import warnings
from pathlib import Path

import numpy as np

from .. import disthist as dh
from .. import tlc

INVS = ['OutputIsAcceptedInOrder', 'CountersMatch']


def model(chk, maxlen):
    r = tlc.run('Synchronizer', cfg_text=tlc.cfg(constants={'MaxLen': maxlen, 'Gen': False, 'WriteIndexBug': 'none'}, invariants=INVS, properties=['SecondRunRefused']), workers=8)
    chk.add_tlc(f'MC:all scripts <= {maxlen}', r)
    if r.violated:
        raise tlc.TLCError(f'Synchronizer violates {r.violated}')
    r2 = tlc.run('Synchronizer', cfg_text=tlc.cfg(constants={'MaxLen': 4, 'Gen': False, 'WriteIndexBug': 'processed'}, invariants=INVS), workers=1)
    chk.add_tlc('MC:write index from processed (must be refuted)', r2)
    if not r2.violated:
        raise tlc.TLCError('Synchronizer lost sensitivity')


def generate(chk, maxlen, scripts=None):
    env = {}
    path = None
    if scripts is not None:
        path = dh.write_json(scripts)
        env['SCRIPTS'] = path
    try:
        r = tlc.run('Synchronizer', cfg_text=tlc.cfg(constants={'MaxLen': maxlen, 'Gen': True, 'WriteIndexBug': 'none'}, invariants=INVS + ['Emit']), env=env, workers=1)
    finally:
        if path:
            os.unlink(path)
    chk.add_tlc(f'GEN:scripts ({"driver" if scripts is not None else "<= %d" % maxlen})', r)
    return r.emits()


def execute(script, outlen_mode, as_path, tmp, tag, check_first=0, stale=False, overwrite=False, check_between=False):
    """returns dict of observations"""
    import scared
    n, L = len(script), 5
    samples = (np.arange(n * L).reshape(n, L) % 97).astype('int16') + 3
    ids = np.arange(100, 100 + n, dtype='int64')
    pt = (np.arange(n * 4).reshape(n, 4) % 251).astype('uint8')
    ths = scared.traces.read_ths_from_ram(samples=samples, id=ids, plaintext=pt) if n else None
    outlen = {'same': L, 'longer': L + 2, 'one': 1}[outlen_mode]
    calls = []
    events = []
    holder = {}

    def f(trace_object):
        k = int(trace_object.id) - 100
        calls.append(k)
        o = script[k]
        events.append({'ans': o, 'processed': int(holder['s'].processed_counter), 'synchronized': int(holder['s'].synchronized_counter)})
        if o == 'R':
            # every way a user function can refuse a trace: with or without a message, library or builtin exception types
            how = (k + len(script)) % 7
            if how == 0:
                raise ValueError('boom')
            if how == 1:
                raise scared.ResynchroError('rejected')
            if how == 2:
                raise scared.ResynchroError
            if how == 3:
                assert o != 'R'
            if how == 4:
                raise KeyError()
            if how == 5:
                return [1, 2][5]
            raise _Silent()
        if o == 'N':
            return None
        base = np.asarray(trace_object.samples[:], dtype='int32') * 2 + 1
        if outlen <= L:
            return base[:outlen]
        return np.concatenate([base, np.array([k, -k], dtype='int32')])
    fn = os.path.join(tmp, f'out_{tag}.ets')
    if stale:
        # an earlier campaign already wrote this output file (other traces, other length); the new run either refuses it or produces ITS output
        old = scared.traces.read_ths_from_ram(samples=np.full((n + 2, 3), 9, dtype='int16'), id=np.arange(900, 902 + n, dtype='int64'), plaintext=np.zeros((n + 2, 4), dtype='uint8'))
        o_ths = scared.Synchronizer(old, fn, lambda trace_object: np.asarray(trace_object.samples[:])).run()
        o_ths.close()
    s = scared.Synchronizer(ths, Path(fn) if as_path else fn, f, **({'overwrite': True} if overwrite else {}))
    holder['s'] = s
    obs = {'error': None}
    if check_first:
        np.random.seed(len(script) * 7 + check_first)
        try:
            s.check(nb_traces=check_first)
        except Exception as ex:           # noqa
            obs['check_error'] = repr(ex)[:100]
        del calls[:]
        del events[:]
    with warnings.catch_warnings(record=True) as wl:
        warnings.simplefilter('always')
        try:
            out = s.run()
        except Exception as ex:
            out = None
            obs['error'] = f'{type(ex).__name__}: {ex}'[:200]
    obs['warnings'] = sum(1 for w in wl if issubclass(w.category, UserWarning) and 'consecutive' in str(w.message))
    obs['processed'], obs['synchronized'] = int(s.processed_counter), int(s.synchronized_counter)
    obs['calls'] = calls
    obs['events'] = list(events)
    if out is not None:
        try:
            obs['len'] = len(out)
            obs['rows'] = [np.asarray(out.samples[i]).tolist() for i in range(len(out))]
            obs['ids'] = [int(x) for x in np.asarray(out.id).reshape(-1)] if len(out) else []
            obs['pt'] = np.asarray(out.plaintext).reshape(len(out), -1).tolist() if len(out) else []
            if len(obs['ids']) != obs['len'] or len(obs['pt']) != obs['len']:
                obs['inconsistent'] = f'{obs["len"]} sample rows, {len(obs["ids"])} ids, {len(obs["pt"])} plaintexts'
        except Exception as ex:
            obs['inconsistent'] = f'{type(ex).__name__}: {ex}'[:200]
    before = (int(s.processed_counter), int(s.synchronized_counter))
    if check_between:
        # a dry check() between the two run() calls (an observer: it changes neither the counters nor the single-use guard)
        ncalls = len(calls)
        try:
            np.random.seed(len(script))
            s.check(nb_traces=1)
        except Exception as ex:           # noqa
            obs['check_error'] = repr(ex)[:100]
        del calls[ncalls:]
        if before != (int(s.processed_counter), int(s.synchronized_counter)):
            obs['check_changed_counters'] = True
    try:
        s.run()
        obs['second'] = 'accepted'
    except scared.SynchronizerError:
        obs['second'] = 'refused'
    except Exception as ex:
        obs['second'] = f'{type(ex).__name__}'
    obs['second_changed'] = before != (int(s.processed_counter), int(s.synchronized_counter))
    try:
        if out is not None:
            out.close()
    except Exception:
        pass
    expected_rows = {}
    for k in range(n):
        base = samples[k].astype('int32') * 2 + 1
        expected_rows[k] = (base[:outlen] if outlen <= L else np.concatenate([base, np.array([k, -k], dtype='int32')])).tolist()
    obs['_expected_rows'] = expected_rows
    obs['_pt'] = pt.tolist()
    return obs


class _Silent(Exception):
    def __init__(self):
        super().__init__()


RECORDED = []


def judge(e, obs, stale=False):
    """compare observations with the specification's final state; returns failing clause or None"""
    n = len(e['script'])
    if stale and obs.get('error') and 'len' not in obs:
        return None            # run() raised on the existing output file (at the first trace it had to write): the run is refused as a whole, nothing is claimed
    if obs['processed'] != e['processed'] or obs['synchronized'] != e['synchronized']:
        return f'processed/synchronized counters equal the number of inputs / accepted traces (got {obs["processed"]}/{obs["synchronized"]}, specification {e["processed"]}/{e["synchronized"]})'
    if obs['calls'] != list(range(n)):
        return 'the user function is called once per input trace, in order'
    if obs.get('inconsistent'):
        return f'the output set holds one trace (samples and metadata) per accepted input ({obs["inconsistent"]})'
    if e['out']:
        if 'len' not in obs:
            return f'run() returns the output set when traces were accepted ({obs["error"]})'
        if obs['len'] != len(e['out']):
            return f'the output contains one trace per accepted input ({obs["len"]} vs {len(e["out"])})'
        for pos, src in enumerate(e['out']):
            k = src - 1
            if obs['ids'][pos] != 100 + k or obs['pt'][pos] != obs['_pt'][k]:
                return 'each output trace carries the metadata of its originating trace, in input order'
            if obs['rows'][pos] != obs['_expected_rows'][k]:
                return 'each output trace holds exactly the data the user function returned for it'
    if obs.get('check_changed_counters'):
        return 'check() changes neither the counters nor the output'
    if obs['second'] != 'refused' or obs['second_changed']:
        return f'a second run() is refused and changes nothing ({obs["second"]})'
    return None


def run(chk):
    rng = random.Random(chk.seed)
    q = chk.tier == 'quick'
    chk.rule = ('TLC enumerates every accept/raise/None script up to the bound; each is executed on a real Synchronizer; plus driver-proposed long scripts with failure runs around the warning '
                'limits 8/16/32; one evaluation = one script executed with one (output path type, returned length) variant; non-trivial = script with at least one accepted and one rejected trace, '
                'or all rejected')
    chk.assumptions += ['returned data has the same length for every accepted trace of a run (ETS files are rectangular)', 'warning counts are compared as K-model drift, not as a verdict']
    model(chk, 8 if q else 9)
    emitted = generate(chk, 6 if q else 8)
    longs = []
    for runlen in (7, 8, 15, 16, 31, 32):
        for _ in range(1 if q else 3):
            pre = [rng.choice('ARN') for _ in range(rng.randint(0, 5))]
            post = [rng.choice('ARN') for _ in range(rng.randint(1, 6))]
            longs.append(pre + ['A'] + [rng.choice('RN') for _ in range(runlen)] + ['A'] + post)
    longs.append([rng.choice('RN') for _ in range(20)])            # all rejected, long
    longs.append(['A'] * 34 + ['R', 'N'] + ['A'] * 9)             # more accepted traces than any writer-side buffering / checkpointing period
    longs.append(['A'] * 70)
    longs.append([rng.choice('ARN') for _ in range(70)])
    emitted += generate(chk, 0, scripts=longs)
    tmp = tempfile.mkdtemp(prefix='verif_c20_')
    try:
        for j, e in enumerate(emitted):
            script = e['script']
            if not script:
                continue
            variants = [('same', False)] if (q and j % 4) else [('same', False), ('longer', True), ('one', j % 2 == 0)]
            for mode, as_path in variants:
                obs = execute(script, mode, as_path, tmp, f'{j}_{mode}', check_first=(2 if e.get('checked') else 0), overwrite=(j % 3 == 1), check_between=(j % 2 == 1))
                bad = judge(e, obs)
                if len(RECORDED) < 4000:
                    RECORDED.append(({'ev': obs['events'], 'final': {'processed': obs['processed'], 'synchronized': obs['synchronized'],
                                                                     'out': [i - 99 for i in obs.get('ids', [])][:obs.get('len', 0)]}}, script, mode))
                mixed = ('A' in script and any(x != 'A' for x in script)) or 'A' not in script
                chk.count((tuple(script), mode, as_path, bool(e.get('checked'))), nontrivial=mixed)
                chk.traces_validated += 1
                if obs['warnings'] != e['warnings']:
                    chk.drift += 1
                if bad:
                    pat = 'all-rejected' if 'A' not in script else 'mixed'
                    chk.violation(f'{bad.split(" (")[0]}:{pat}' + (':after check()' if e.get('checked') else ''), {'property': 'C20', 'script': script, 'check_first': 2 if e.get('checked') else 0, 'returned_length': mode, 'output_as_path': as_path, 'specification': e,
                                                                 'observed': {k: v for k, v in obs.items() if not k.startswith('_')}, 'clause': bad},
                                  f'script {"".join(script)} ({mode}, {"Path" if as_path else "str"}): {bad}')
            if j % 9 == 4:
                obs = execute(script, 'same', False, tmp, f'{j}_stale', stale=True)
                bad = judge(e, obs, stale=True)
                chk.count((tuple(script), 'stale'), nontrivial=True)
                chk.traces_validated += 1
                if bad:
                    chk.violation(f'{bad.split(" (")[0]}:existing output file', {'property': 'C20', 'script': script, 'stale_output': True, 'returned_length': 'same', 'output_as_path': False, 'specification': e,
                                                                                 'observed': {k: v for k, v in obs.items() if not k.startswith('_')}, 'clause': bad},
                                  f'script {"".join(script)} on an output file left by an earlier campaign: {bad}')
            for fn in os.listdir(tmp):
                os.unlink(os.path.join(tmp, fn))
            if j in (50, 500):
                chk.sample({'script': ''.join(script), 'output_source_ids': e['out'], 'processed': e['processed'], 'synchronized': e['synchronized']})
        validate_recorded(chk)
        chk.sample({'long_script': ''.join(longs[2]), 'warnings_in_model': [x['warnings'] for x in emitted if len(x['script']) == len(longs[2])][:1]})
    finally:
        shutil.rmtree(tmp, ignore_errors=True)


def validate_recorded(chk):
    """(V) every recorded execution judged by specs/SynchronizerTrace.tla"""
    if not RECORDED:
        return
    path = dh.write_json([r for r, _, _ in RECORDED])
    try:
        r = tlc.run('SynchronizerTrace', cfg_text=tlc.cfg(invariants=['Verdict']), env={'TRACES': path}, workers=1, timeout=1200, heap='6g')
    finally:
        os.unlink(path)
    chk.add_tlc('TRACE:recorded executions (counters seen inside every call, final counters, output ids)', r)
    verd = r.emits('VERDICT')
    if len(verd) != len(RECORDED):
        raise tlc.TLCError(f'SynchronizerTrace: {len(verd)} verdicts for {len(RECORDED)} executions')
    for v in verd:
        rec, script, mode = RECORDED[v['t'] - 1]
        chk.traces_validated += 1
        if v['clause'] != 'ok':
            chk.violation(f'recorded:{v["clause"].split(" call ")[0]}', {'property': 'C20', 'part': 'recorded', 'script': script, 'returned_length': mode, 'recorded': rec, 'clause': v['clause']},
                          f'script {"".join(script)}: {v["clause"]}')


def replay(chk, path):
    rp = json.load(open(path))
    tmp = tempfile.mkdtemp(prefix='verif_c20_')
    try:
        obs = execute(rp['script'], rp['returned_length'], rp['output_as_path'], tmp, 'replay', check_first=rp.get('check_first', 0), stale=rp.get('stale_output', False))
        bad = judge(rp['specification'], obs, stale=rp.get('stale_output', False))
    finally:
        shutil.rmtree(tmp, ignore_errors=True)
    print('disagreement:', bad)
    if bad:
        print(f'VIOLATION property=C20 replay={path}')
        return 1
    return 0
