"""C19 - signal helpers equal their windowed definitions; peak search keeps isolated maxima; find_width.

(M) specs/SigPeaks.tla: over EVERY signal of the bound, the (repaired) elimination scan returns a peak set accepted by the
    declarative post-condition ValidPeaks (candidates only, pairwise >= distance, every dropped candidate has a candidate at
    least as high closer than the distance) and keeps every isolated maximum; the pinned scan (sentinel -1 re-read as position
    and as index) is refuted.  specs/SigEnum.tla: raw-moment formulas of moving_var/skew/kurtosis equal the central moments
    by definition on every window; |Pearson| <= 1 on every window; reported width runs are disjoint and ordered.
(V) the outputs of the real find_peaks on every signal of the bound (x distances x heights) are judged by TLC against
    ValidPeaks (any correct tie-breaking is accepted).
(G) expected windowed sums / means / variances / std / skew / kurtosis (1-D and as lanes of 3-D arrays along every axis,
    negative axes included), per-window correlation / distance / BCDC against every pattern, find_width for both directions,
    thresholds and (min, max, delta) bounds, pad and extract_around_indexes index maps.
"""
import itertools
import json
import math
import os
import random
from fractions import Fraction

import numpy as np

from .. import disthist as dh
from .. import tlc


def fr(r):
    return None if r[1] == 0 else Fraction(r[0], r[1])


def peaks_model(chk, q):
    cons = dict(MinLen=1, Ds={0, 1, 2, 3, 5, 6} if q else {0, 1, 2, 3, 4, 5, 6, 7}, Hs={0, 1} if q else {0, 1, 2})
    for ml, al in ((7, {0, 1, 2}), (9 if q else 10, {0, 1})) + (() if q else ((8, {0, 1, 2}), (6, {0, 1, 2, 3}))):
        r = tlc.run('SigPeaks', cfg_text=tlc.cfg(constants=dict(cons, MaxLen=ml, Alphabet=al, Variant='fixed'), invariants=['ScanIsValid', 'IsolatedKept']), workers=16)
        chk.add_tlc(f'MC:peak scan (fixed) len<={ml} over {sorted(al)}', r)
        if r.violated:
            raise tlc.TLCError(f'SigPeaks(fixed) violates {r.violated}\n' + '\n'.join(r.error_trace[-6:]))
    r = tlc.run('SigPeaks', cfg_text=tlc.cfg(constants=dict(cons, MaxLen=5, Alphabet={0, 1}, Variant='pinned'), invariants=['ScanIsValid']), workers=1)
    chk.add_tlc('MC:peak scan (pinned, must be refuted)', r)
    if not r.violated:
        raise tlc.TLCError('SigPeaks lost sensitivity: the sentinel-reusing scan is no longer refuted')


def peaks_validate(chk, q, rng):
    from scared.signal_processing import find_peaks
    cases = []
    ds = [0, 1, 2, 3, 5, 6] if q else list(range(8))
    sigs = []
    for L, al in ((7, 3), (9, 2)) if q else ((8, 3), (10, 2), (6, 4)):
        for n in range(1, L + 1):
            sigs += [list(s) for s in itertools.product(range(al), repeat=n)]
    if q:
        sigs = [s for i, s in enumerate(sigs) if len(s) <= 5 or i % 3 == 0]
    for _ in range(200 if q else 2000):          # longer random signals on small alphabets (plateaus everywhere)
        n = rng.randint(10, 40)
        sigs.append([rng.randint(0, 3) for _ in range(n)])
    dts = ['int64', 'float64', 'int16', 'float32', 'uint8', 'uint16', 'int8', 'uint32']
    seen = set()
    for si, s in enumerate(sigs):
        key = tuple(s)
        if key in seen:
            continue
        seen.add(key)
        arr = np.array([v * 40 for v in s] if si % 8 >= 4 else s, dtype=dts[si % 8])       # unsigned / int8 arrays with large steps (differences do not fit the dtype)
        for d in (ds if len(s) <= 10 else [rng.choice([2, 3, 5, 7, 11])]):
            for h in ((0, 1) if q else (0, 1, 2)):
                hh = (-np.inf if si % 2 else 0) if h == 0 else ((h if si % 3 else float(h)) * (40 if si % 8 >= 4 else 1))
                out = find_peaks(arr.copy(), d, hh)
                cases.append({'sig': s, 'd': d, 'h': h, 'out': [int(x) for x in out]})
                if si % 5 == 0:          # the same shape with negative values and a negative height: judged by TLC on its own values
                    s2 = [3 * v - 4 for v in s]
                    out2 = find_peaks(np.array(s2, dtype=dts[(si + 1) % 4 if (si + 1) % 4 != 0 or True else 0] if dts[(si + 1) % 4] not in ('uint8',) else 'int16'), d, 3 * h - 4 if si % 2 else float(3 * h - 4))
                    cases.append({'sig': s2, 'd': d, 'h': 3 * h - 4, 'out': [int(x) for x in out2]})
    # long signals (beyond any internal blocking): a small signal followed by a strictly decreasing tail of 200000 samples starting below its last
    # sample - the tail holds no local maximum and does not change which samples of the head are, so the peaks are peaks of the head, judged by TLC on it
    heads = [s_ for s_ in sigs if 3 <= len(s_) <= 9][:: max(1, len([s_ for s_ in sigs if 3 <= len(s_) <= 9]) // (12 if q else 60))]
    for hi_, s_ in enumerate(heads):
        for tail_len in (70000, 200003):
            tail = [s_[-1] - 1 - k for k in range(tail_len)]
            arr = np.array(list(s_) + tail, dtype=['int64', 'float64', 'int32'][hi_ % 3])
            d_ = [1, 2, 3, 5][hi_ % 4]
            out = [int(x) for x in find_peaks(arr, d_, 0 if hi_ % 2 else -np.inf)]
            if any(x >= len(s_) for x in out):
                chk.count(('P-long', hi_, tail_len), nontrivial=True)
                chk.violation('find_peaks:output is an acceptable peak set (candidates, pairwise distance, every dropped candidate dominated by a close candidate)',
                              {'property': 'C19', 'part': 'peaks', 'sig': s_, 'tail': f'{tail_len} strictly decreasing samples from {s_[-1] - 1}', 'd': d_, 'out': out[:10]},
                              f'find_peaks({s_} + {tail_len} strictly decreasing samples, {d_}) returns {[x for x in out if x >= len(s_)][:4]}: samples of a falling slope')
            else:
                cases.append({'sig': list(s_), 'd': d_, 'h': 0, 'out': out})
    verdicts = {}
    CH = 60000
    for c0 in range(0, len(cases), CH):
        part = cases[c0:c0 + CH]
        path = dh.write_json(part)
        try:
            r = tlc.run('SigPeaksV', cfg_text=tlc.cfg(invariants=['Verdict']), env={'CASES': path}, workers=1, heap='6g')
        finally:
            os.unlink(path)
        chk.add_tlc(f'TRACE:find_peaks outputs judged by ValidPeaks [{c0}..]', r)
        for idx, ok in r.emits('VERDICT'):
            verdicts[c0 + idx - 1] = ok
    if len(verdicts) != len(cases):
        raise tlc.TLCError(f'SigPeaksV returned {len(verdicts)} verdicts for {len(cases)} cases')
    for i, c in enumerate(cases):
        cands = sum(1 for k in range(len(c['sig'])) if (k == 0 or c['sig'][k] >= c['sig'][k - 1]) and (k == len(c['sig']) - 1 or c['sig'][k] >= c['sig'][k + 1]))
        chk.count(('P', i), nontrivial=cands >= 2 and c['d'] >= 1)
        chk.traces_validated += 1
        if not verdicts[i]:
            chk.violation('find_peaks:output is an acceptable peak set (candidates, pairwise distance, every dropped candidate dominated by a close candidate)',
                          dict(c, property='C19', part='peaks'), f'find_peaks({c["sig"]}, {c["d"]}, {c["h"]}) = {c["out"]} is rejected by ValidPeaks')
    chk.sample({'find_peaks_case': cases[len(cases) // 2]})


def lanes_check(chk, name, fn, sigs_by_len, w, expected_fn, tol=1e-9):
    """put signals of one length as lanes of a 3-D array along every axis (incl. negative) and compare lane-wise"""
    import scared.signal_processing as sp
    for L, items in sigs_by_len.items():
        if w > L or len(items) < 6:
            continue
        six = items[:6]
        base = np.array([s for s, _ in six], dtype='float64').reshape(2, 3, L)
        for axis in (0, 1, 2, -1, -2, -3):
            arr = np.moveaxis(base, 2, axis % 3).copy()
            arr0 = arr.copy()
            out = fn(arr, w, axis=axis)
            if not np.array_equal(arr, arr0):
                chk.violation(f'{name}:the data array is left as it was given', {'property': 'C19', 'part': 'moving', 'op': name, 'window': w, 'axis': axis}, f'{name}(axis={axis}, w={w}) modified its input array')
                return
            out = np.moveaxis(out, axis % 3, 2).reshape(6, -1)
            for li, (s, exp) in enumerate(six):
                want = expected_fn(exp, w)
                chk.count((name, 'nd', L, w, axis, li), nontrivial=True)
                if out[li].shape != (L - w + 1,) or not close(out[li], want, tol):
                    chk.violation(f'{name}:equals the naive statistic of every window along the chosen axis', {'property': 'C19', 'part': 'moving', 'op': name, 'signal': s, 'window': w, 'axis': axis,
                                                                                                                'got': out[li].tolist(), 'expected': [None if x is None else float(x) for x in want]},
                                  f'{name}(axis={axis}, w={w}) on lane {s}: {out[li].tolist()} != {want}')
                    return


def close(got, want, tol):
    if len(got) != len(want):
        return False
    for g, w in zip(got, want):
        if w is None:
            continue            # undefined (zero-variance window): follows numpy's 0/0, not claimed
        if not np.isfinite(g) or abs(float(g) - float(w)) > tol * (1 + abs(float(w))):
            return False
    return True


def moving(chk, q):
    import scared.signal_processing as sp
    r = tlc.run('SigEnum', cfg_text=tlc.cfg(constants={'Mode': 'win', 'MaxLen': 5 if q else 6, 'MinLen': 1, 'Alphabet': {0, 1, 2}, 'Gen': True, 'MaxPat': 1}, invariants=['MomentLemma', 'Emit']), workers=1)
    chk.add_tlc('MC+GEN:windowed moments', r)
    if r.violated:
        raise tlc.TLCError(f'SigEnum(win) violates {r.violated}')
    rneg = tlc.run('SigEnum', cfg_text=tlc.cfg(constants={'Mode': 'win', 'MaxLen': 4 if q else 5, 'MinLen': 2, 'Gen': True, 'MaxPat': 1}, invariants=['MomentLemma', 'Emit']), defs={'Alphabet': '{-3, 0, 5}'}, workers=1)
    chk.add_tlc('MC+GEN:windowed moments (values -3, 0, 5)', rneg)
    if rneg.violated:
        raise tlc.TLCError(f'SigEnum(win, negative values) violates {rneg.violated}')
    ops = {
        'moving_sum': (sp.moving_sum, lambda e, w: [x['sum'] for x in e[w - 1]]),
        'moving_mean': (sp.moving_mean, lambda e, w: [fr(x['mean']) for x in e[w - 1]]),
        'moving_var': (sp.moving_var, lambda e, w: [fr(x['var']) for x in e[w - 1]]),
        'moving_std': (sp.moving_std, lambda e, w: [math.sqrt(fr(x['var'])) for x in e[w - 1]]),
        'moving_skew': (sp.moving_skew, lambda e, w: [None if fr(x['var']) == 0 else float(fr(x['mu3'])) / float(fr(x['var'])) ** 1.5 for x in e[w - 1]]),
        'moving_kurtosis': (sp.moving_kurtosis, lambda e, w: [None if fr(x['var']) == 0 else float(fr(x['mu4']) / fr(x['var']) ** 2 - 3) for x in e[w - 1]]),
    }
    by_len = {}
    dts = ['uint8', 'int16', 'float32', 'float64', 'int64']
    for i, e in enumerate(r.emits() + rneg.emits()):
        s = e['sig']
        if min(s) >= 0:
            by_len.setdefault(len(s), []).append((s, e['win']))
        for name, (fn, exp) in ops.items():
            for w in range(1, len(s) + 1):
                arr = np.array(s, dtype=dts[(i + w) % len(dts)] if min(s) >= 0 else ['int16', 'float64', 'int64', 'float32'][(i + w) % 4])
                got = np.asarray(fn(arr, w))
                want = exp(e['win'], w)
                chk.count((name, tuple(s), w), nontrivial=w >= 2)
                if not close(got, want, 1e-9 if name not in ('moving_skew', 'moving_kurtosis') else 1e-7):
                    chk.violation(f'{name}:equals the naive statistic of every window', {'property': 'C19', 'part': 'moving', 'op': name, 'signal': s, 'window': w, 'axis': -1, 'dtype': str(arr.dtype),
                                                                                         'got': got.tolist(), 'expected': [None if x is None else float(x) for x in want]},
                                  f'{name}({s}, {w}) = {got.tolist()} expected {[None if x is None else float(x) for x in want]}')
        if i % 4 == 0 and len(s) >= 2:
            # the same signal riding on a large offset (an ADC trace around 100000 with a swing of a few codes): variance and standard deviation do not change
            arr2 = np.array(s, dtype='int64') + 100000
            for w in range(2, len(s) + 1):
                for name2, fn2, expv in (('moving_var', sp.moving_var, [fr(x['var']) for x in e['win'][w - 1]]), ('moving_std', sp.moving_std, [math.sqrt(fr(x['var'])) for x in e['win'][w - 1]])):
                    got = np.asarray(fn2(arr2 if i % 8 else arr2.astype('float64'), w))
                    chk.count((name2, tuple(s), w, 'offset'), nontrivial=True)
                    if len(got) != len(expv) or any((not np.isfinite(g)) or abs(float(g) - float(x_)) > 2e-4 for g, x_ in zip(got, expv)):
                        chk.violation(f'{name2}:equals the naive statistic of every window', {'property': 'C19', 'part': 'moving', 'op': name2, 'signal': [v + 100000 for v in s], 'window': w, 'axis': -1, 'dtype': str(arr2.dtype),
                                                                                              'got': got.tolist(), 'expected': [float(x_) for x_ in expv]}, f'{name2}({s} + 100000, {w}) = {got.tolist()} expected {[float(x_) for x_ in expv]}')
        chk.traces_validated += 1
    # values whose running sums are not representable in the input's own half / single precision (1024 + 1024 + 1 in float16, 2^24 + 1 in float32)
    for alpha, dt in (('{0, 1, 1024}', 'float16'), ('{0, 1, 16777216}', 'float32')):
        rbig = tlc.run('SigEnum', cfg_text=tlc.cfg(constants={'Mode': 'winsum', 'MaxLen': 4 if q else 5, 'MinLen': 2, 'Gen': True, 'MaxPat': 1}, invariants=['Emit']), defs={'Alphabet': alpha}, workers=1)
        chk.add_tlc(f'GEN:windowed sums / means over {alpha} ({dt} inputs)', rbig)
        for e in rbig.emits():
            s = e['sig']
            arr = np.array(s, dtype=dt)
            for name, fn, key in (('moving_sum', sp.moving_sum, 'sum'), ('moving_mean', sp.moving_mean, 'mean')):
                for w in range(1, len(s) + 1):
                    got = np.asarray(fn(arr, w))
                    want = [x[key] if key == 'sum' else fr(x[key]) for x in e['win'][w - 1]]
                    chk.count((name, tuple(s), w, dt), nontrivial=w >= 2)
                    if not close(got, want, 1e-9):
                        chk.violation(f'{name}:equals the naive statistic of every window', {'property': 'C19', 'part': 'moving', 'op': name, 'signal': s, 'window': w, 'axis': -1, 'dtype': dt,
                                                                                             'got': got.tolist(), 'expected': [float(x) for x in want]}, f'{name}({s} as {dt}, {w}) = {got.tolist()} expected {[float(x) for x in want]}')
            chk.traces_validated += 1
    rr = random.Random(chk.seed)
    for L in by_len:
        rr.shuffle(by_len[L])
    for name, (fn, exp) in ops.items():
        for w in range(1, 5):
            lanes_check(chk, name, fn, by_len, w, exp, 1e-9 if name not in ('moving_skew', 'moving_kurtosis') else 1e-7)
    chk.sample({'windowed': r.emits()[40]})


def patterns(chk, q):
    import scared.signal_processing as sp
    r = tlc.run('SigEnum', cfg_text=tlc.cfg(constants={'Mode': 'pat', 'MaxLen': 4 if q else 5, 'MinLen': 2, 'Alphabet': {0, 1, 2}, 'Gen': True, 'MaxPat': 3}, invariants=['PatLemma', 'Emit']), workers=1)
    chk.add_tlc('MC+GEN:pattern scores', r)
    if r.violated:
        raise tlc.TLCError(f'SigEnum(pat) violates {r.violated}')
    for i, e in enumerate(r.emits()):
        tr = np.array(e['sig'], dtype=['uint8', 'float64', 'int16'][i % 3])
        for byn in e['pat']:
            for item in byn:
                y = np.array(item['y'], dtype=['uint8', 'float32'][i % 2])
                with np.errstate(all='ignore'):
                    gc, gd, gb = sp.correlation(tr, y), sp.distance(tr, y), sp.bcdc(tr, y)
                for k, wv in enumerate(item['win']):
                    num, dx, dy = wv['cert']
                    chk.count(('pat', tuple(e['sig']), tuple(item['y']), k), nontrivial=len(item['y']) >= 2)
                    bad = None
                    if dx * dy != 0 and abs(gc[k] - num / math.sqrt(dx * dy)) > 1e-7:
                        bad = ('correlation', float(gc[k]), num / math.sqrt(dx * dy))
                    elif abs(gd[k] - math.sqrt(wv['d2'])) > 1e-7:
                        bad = ('distance', float(gd[k]), math.sqrt(wv['d2']))
                    elif wv['b2'][1] != 0 and abs(gb[k] - math.sqrt(wv['b2'][0] / wv['b2'][1])) > 1e-7:
                        bad = ('bcdc', float(gb[k]), math.sqrt(wv['b2'][0] / wv['b2'][1]))
                    if bad:
                        chk.violation(f'{bad[0]}:per-window score equals its definition', {'property': 'C19', 'part': 'pattern', 'trace': e['sig'], 'pattern': item['y'], 'window': k, 'op': bad[0], 'got': bad[1], 'expected': bad[2]},
                                      f'{bad[0]}({e["sig"]}, {item["y"]})[{k}] = {bad[1]} expected {bad[2]}')
        chk.traces_validated += 1


def widths(chk, q):
    from scared.signal_processing import find_width, Direction
    r = tlc.run('SigEnum', cfg_text=tlc.cfg(constants={'Mode': 'width', 'MaxLen': 6 if q else 7, 'MinLen': 2, 'Alphabet': {0, 1, 2}, 'Gen': True, 'MaxPat': 1}, invariants=['WidthLemma', 'Emit']), workers=1)
    chk.add_tlc('MC+GEN:find_width', r)
    if r.violated:
        raise tlc.TLCError(f'SigEnum(width) violates {r.violated}')
    for i, e in enumerate(r.emits()):
        s = e['sig']
        L = len(s)
        arr = np.array(s, dtype=['int64', 'float64', 'int16', 'int8', 'float32'][i % 5])        # unsigned arrays are refused by find_width with POSITIVE direction (numpy 2 OverflowError on -1 * data): a refusal, not claimed
        for dname, dr in (('pos', Direction.POSITIVE), ('neg', Direction.NEGATIVE)):
            for thr in (0, 1):
                tab = e['width'][dname][str(thr)]
                combos = [(mw, None, None) for mw in (1, 2, 3)] + [(mw, mx, None) for mw in (1, 2) for mx in range(mw, min(L, 4) + 1)] + [(mw, None, dl) for mw in (2, 3) for dl in range(1, mw)]
                for mw, mx, dl in combos:
                    lo, hi = (mw, mx) if mx is not None else ((mw - dl, mw + dl) if dl is not None else (mw, L + 1))
                    hi = min(hi, L + 1)
                    want = [list(x) for x in tab[lo - 1][hi - 1]]
                    got = find_width(arr, dr, thr if i % 2 else float(thr), mw, max_width=mx, delta=dl)
                    got = [[int(a), int(b)] for a, b in np.asarray(got).reshape(-1, 2)]
                    chk.count(('w', tuple(s), dname, thr, mw, mx, dl), nontrivial=True)
                    if got != want:
                        chk.violation('find_width:returns exactly the bracketed maximal runs strictly beyond the threshold within the width bounds',
                                      {'property': 'C19', 'part': 'width', 'signal': s, 'direction': dname, 'threshold': thr, 'min_width': mw, 'max_width': mx, 'delta': dl, 'got': got, 'expected': want},
                                      f'find_width({s}, {dname}, thr={thr}, min={mw}, max={mx}, delta={dl}) = {got} expected {want}')
        chk.traces_validated += 1


def pad_extract(chk, rng):
    """index maps (specs/SigIndex.tla): pad places the array at the offsets; extract_around_indexes takes data[i - before .. i + after] with Python
    indexing; indexes are presented in every integer type that can hold their values (the result depends on the values only)"""
    from scared.signal_processing import pad, extract_around_indexes, ExtractMode
    q = chk.tier == 'quick'
    cases = []
    for _ in range(60 if q else 300):
        nd = rng.randint(1, 3)
        shp = [rng.randint(1, 3) for _ in range(nd)]
        off = [rng.randint(0, 2) for _ in range(nd)]
        tgt = [s_ + o + rng.randint(0, 2) for s_, o in zip(shp, off)]
        cases.append({'kind': 'pad', 'flat': list(range(1, int(np.prod(shp)) + 1)), 'shape': shp, 'target': tgt, 'offsets': off, 'pw': rng.choice([0, 7])})
    for k in range(90 if q else 400):
        L = rng.randint(6, 12) if k % 5 else rng.randint(262, 300)           # longer than any 8-bit index as well
        data = [rng.randint(0, 50) for _ in range(L)]
        before, after = rng.randint(0, 3), rng.randint(0, 2)
        lo = 0 if k % 2 else before                                             # every second case reaches before the first sample (Python indexing)
        pool = list(range(lo, L - after))
        idxs = rng.sample(pool, min(3, len(pool)))
        if k % 3 == 0:
            idxs = sorted(idxs)
        if k % 2 == 0 and before:
            idxs[0] = rng.randint(0, before - 1)
        cases.append({'kind': 'extract', 'data': data, 'idxs': idxs, 'before': before, 'after': after})
    path = dh.write_json(cases)
    try:
        r = tlc.run('SigIndex', cfg_text=tlc.cfg(invariants=['CentreIsIndexed', 'PadKeepsEverything', 'Emit']), env={'CASES': path}, workers=1, timeout=1200)
    finally:
        os.unlink(path)
    chk.add_tlc('MC+GEN:pad / extract_around_indexes index maps', r)
    if r.violated:
        raise tlc.TLCError(f'SigIndex violates {r.violated}')
    res = {e['case'] - 1: e['res'] for e in r.emits()}
    if len(res) != len(cases):
        raise tlc.TLCError('SigIndex: missing cases')
    IDT = ['int64', 'uint8', 'int32', 'uint16', 'int16', 'uint32', 'int8']      # uint64 indexes are refused by numpy's own promotion (uint64 + int64 -> float64): not claimed
    for ci, c in enumerate(cases):
        e = res[ci]
        if c['kind'] == 'pad':
            a = np.array(c['flat']).reshape(c['shape'])
            chk.count(('pad', ci), nontrivial=True)
            if not e['fits']:
                continue
            out = pad(a, c['target'], c['offsets'], pad_with=c['pw'])
            if list(out.shape) != c['target'] or out.reshape(-1).tolist() != e['out']:
                chk.violation('pad:places the array at the offsets and fills the rest', {'property': 'C19', 'part': 'pad', 'shape': c['shape'], 'offsets': c['offsets'], 'target': c['target'],
                                                                                        'got': out.tolist(), 'expected_flat': e['out']}, f'pad {c["shape"]} at {c["offsets"]} into {c["target"]}')
            chk.traces_validated += 1
            continue
        if not e['ok']:
            continue
        data = np.array(c['data'], dtype='int64')
        want = e['stack']
        for dt in IDT:
            info = np.iinfo(dt)
            if min(c['idxs']) < info.min or max(c['idxs']) > info.max:
                continue
            idxs = np.array(c['idxs'], dtype=dt)
            st = extract_around_indexes(data, idxs, c['before'], c['after'], ExtractMode.STACK)
            cc = extract_around_indexes(data, idxs, c['before'], c['after'], ExtractMode.CONCATENATE)
            av = extract_around_indexes(data, idxs, c['before'], c['after'], ExtractMode.AVERAGE)
            chk.count(('extract', ci, dt), nontrivial=True)
            if st.tolist() != want or cc.tolist() != [v for row in want for v in row] or not np.allclose(av, np.array(e['colsum'], dtype='float64') / len(want)):
                chk.violation('extract_around_indexes:takes exactly the documented samples', {'property': 'C19', 'part': 'extract', 'data': c['data'], 'indexes': c['idxs'], 'index_dtype': dt, 'before': c['before'],
                                                                                             'after': c['after'], 'got': st.tolist(), 'expected': want},
                              f'extract_around_indexes(len {len(c["data"])}, {c["idxs"]} as {dt}, before={c["before"]}, after={c["after"]})')
        chk.traces_validated += 1


def run(chk):
    rng = random.Random(chk.seed)
    q = chk.tier == 'quick'
    chk.rule = ('find_peaks: every signal of length <= 7(8) over {0,1,2} and <= 9(10) over {0,1} (quick: one third of the longer ones) plus random signals of length 10..40, x distances x heights, '
                'each OUTPUT judged by TLC against ValidPeaks; non-trivial = >= 2 candidates and distance >= 1.  Moving operators / pattern scores / find_width: every signal of the bound enumerated by TLC with '
                'expected values, 1-D and as lanes of 3-D arrays along all six axis spellings; one evaluation = one compared output')
    chk.assumptions += ['zero-variance windows (0/0) follow numpy and are not compared for skew/kurtosis/correlation/bcdc', 'sqrt and the 3/2 power evaluated outside TLC on exact rationals',
                        'height 0 on non-negative signals stands for -inf (both spellings are passed to the code)', 'pad / extract_around_indexes index maps are checked on seeded random shapes (in-range windows)',
                        'find_width on unsigned integer arrays is refused by numpy 2 for Direction.POSITIVE (OverflowError): not claimed']
    peaks_model(chk, q)
    peaks_validate(chk, q, rng)
    moving(chk, q)
    patterns(chk, q)
    widths(chk, q)
    pad_extract(chk, rng)
    from .. import apirules
    apirules.run(chk, 'find_peaks', 'C19')
    apirules.run(chk, 'moving', 'C19')


def replay(chk, path):
    rp = json.load(open(path))
    if rp.get('part') == 'peaks':
        from scared.signal_processing import find_peaks
        out = [int(x) for x in find_peaks(np.array(rp['sig']), rp['d'], -np.inf if rp['h'] == 0 else rp['h'])]
        p = dh.write_json([{'sig': rp['sig'], 'd': rp['d'], 'h': rp['h'], 'out': out}])
        try:
            r = tlc.run('SigPeaksV', cfg_text=tlc.cfg(invariants=['Verdict']), env={'CASES': p}, workers=1)
        finally:
            os.unlink(p)
        ok = r.emits('VERDICT')[0][1]
        print('output now:', out, 'accepted by ValidPeaks:', ok)
        if not ok:
            print(f'VIOLATION property=C19 replay={path}')
            return 1
        return 0
    print('re-run ./check C19: the other sub-checks enumerate their cases from TLC')
    return 0
