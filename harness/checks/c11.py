"""C11 - results are independent of the run-time kernel selection and of the thread count.

(M) specs/KernelRace.tla: both accumulation kernels of the partitioned distinguishers and of the template builder at
    loop-nest granularity, prange iterations as processes, every `+=` a read step and a write step: for ALL
    interleavings no cell has two concurrent writers and the final memory is the batch's contribution (P); a variant in
    which every iteration bumps the counters is refuted (sensitivity).  specs/SquareK.tla: squaring in the requested
    precision is exact for 2^12-offset samples, squaring in the float32 trace type is refuted.  specs/KernelSeq.tla:
    every batch split x every sequence of kernel choices has the same state after every batch.
(G) every such history is replayed on the real objects with the kernel FORCED per batch through the SCARED_VERIF hook
    (the hook's own log must confirm the forced kernel ran), for several thread counts and datasets (uint8, negative
    int16, float32 traces with a 2^12 offset under float64 precision, undeclared values, 3 / 9 / 10 / 64 classes):
    state == specification state after every batch, final results bit-identical across all kernel sequences and
    thread counts in the exact regime (within rounding of the precision otherwise).
(V) unforced runs: the kernel sequence the code chose (hook log) must be one the choice-rule model allows.
"""
import json
import random

import numpy as np

from .. import disthist as dh
from .. import tlc
from ..dist import Adapter, memoise_lut, PRESENTATIONS

PRESENTATIONS.setdefault('f32', ('float32', 1))


def race_models(chk, rng):
    confs = [(2, 3, 2, 2), (3, 2, 1, 2)] if chk.tier == 'quick' else [(2, 3, 2, 2), (3, 2, 1, 2), (3, 3, 1, 3), (2, 4, 2, 3)]
    for (S, T, W, C) in confs:
        X = [[rng.randint(0, 3) for _ in range(S)] for _ in range(T)]
        Idx = [[rng.randint(0, C) for _ in range(W)] for _ in range(T)]
        Idx[0][0] = 0           # an undeclared value is always present
        for kern in ('part1', 'part2', 'tpl1', 'tpl2'):
            w = W if kern.startswith('part') else 1
            r = tlc.run('KernelRace', cfg_text=tlc.cfg(constants={'Kern': kern, 'S': S, 'T': T, 'W': w, 'C': C}, invariants=['NoRace', 'FinalIsContribution']),
                        defs={'X': tlc.tla(X), 'Idx': tlc.tla([row[:w] for row in Idx])}, workers=8)
            chk.add_tlc(f'MC:race {kern} S={S} T={T} W={w} C={C}', r)
            if r.violated:
                raise tlc.TLCError(f'KernelRace {kern} violates {r.violated}: the kernel model has a race or a wrong sum\n' + '\n'.join(r.error_trace[:30]))
    r = tlc.run('KernelRace', cfg_text=tlc.cfg(constants={'Kern': 'part1racy', 'S': 2, 'T': 2, 'W': 1, 'C': 2}, invariants=['NoRace', 'FinalIsContribution']),
                defs={'X': tlc.tla([[1, 2], [3, 1]]), 'Idx': tlc.tla([[1], [1]])}, workers=1)
    chk.add_tlc('MC:race part1racy (must be refuted)', r)
    if not r.violated:
        raise tlc.TLCError('KernelRace lost sensitivity: counters bumped by every prange iteration is no longer refuted')
    for variant, must in (('fixed', False), ('pinned', True)):
        r = tlc.run('SquareK', cfg_text=tlc.cfg(constants={'Variant': variant, 'Lo': 4090, 'Hi': 4110}, invariants=['KernelsAddTheSameSquare']), workers=1)
        chk.add_tlc(f'MC:square dtype ({variant})', r)
        if bool(r.violated) != must:
            raise tlc.TLCError(f'SquareK {variant}: expected {"refutation" if must else "no violation"}, got {r.violated}')


def make_cases(rng, tier):
    cs = []

    def add(label, c, combos, n, tmin=0, tmax=15, dvals=None, offset=0):
        rows = dh.random_rows(rng, c, n, tmax=tmax, tmin=tmin, dvals=dvals)
        for r in rows:
            r['t'] = [x + offset for x in r['t']]
        cs.append({'label': label, 'c': c, 'rows': rows, 'combos': combos})
    n = 4 if tier == 'quick' else 6
    both = [('float32', 'u8'), ('float64', 'u8')]
    add('part3', dh.base_cfg('part', S=3, W=2, classes=(0, 1, 2)), both + [('float64', 'f64q')], n, dvals=[0, 1, 2, 7])
    add('part3-neg', dh.base_cfg('part', S=2, W=1, classes=(2, 0, 1)), [('float32', 'i16'), ('float64', 'f32q')], n, tmin=-9, tmax=9, dvals=[0, 1, 2, 7])
    add('part3-offset-f32traces', dh.base_cfg('part', S=2, W=1, classes=(0, 1, 2)), [('float64', 'f32'), ('float32', 'f32')], n, tmin=1, tmax=7, offset=4096)
    add('part9', dh.base_cfg('part', S=2, W=1, classes=tuple(range(9))), [('float32', 'i16')], n, dvals=list(range(10)))
    add('part10', dh.base_cfg('part', S=2, W=1, classes=tuple(range(10))), [('float64', 'u8')], n, dvals=list(range(11)))
    if tier != 'quick':
        add('part64', dh.base_cfg('part', S=2, W=1, classes=tuple(range(64))), [('float32', 'u8')], n, dvals=list(range(66)))
    add('tplb', dh.base_cfg('tplb', S=3, W=1, classes=(0, 1, 2)), both, n, dvals=[0, 1, 2, 7])
    add('tplb-u8-full-scale', dh.base_cfg('tplb', S=2, W=1, classes=(0, 1)), [('float64', 'u8')], n, tmin=230, tmax=255, dvals=[0, 1])
    cs[-1]['rep'] = 401          # every batch is presented 401 times (odd: the sums keep their low bits): per-batch sums of products beyond 2^24, all accumulators scale by 401
    add('tplb-offset-f32traces', dh.base_cfg('tplb', S=2, W=1, classes=(1, 0)), [('float64', 'f32')], n, tmin=1, tmax=7, offset=4096, dvals=[0, 1, 5])
    return cs


def _scaled(x, k):
    if isinstance(x, dict):
        return {a: _scaled(b, k) for a, b in x.items()}
    if isinstance(x, list):
        return [_scaled(b, k) for b in x]
    return x * k


def generate(chk, cases, maxb):
    path = dh.write_json([{'c': c['c'], 'rows': c['rows']} for c in cases])
    import os
    try:
        r0 = tlc.run('KernelSeq', cfg_text=tlc.cfg(constants={'MaxBatches': maxb, 'RecordHist': False}, invariants=['StateIsFunctionOfPrefix']), env={'CASES': path}, workers=8)
        chk.add_tlc('MC:kernel sequences', r0)
        if r0.violated:
            raise tlc.TLCError(f'KernelSeq violates {r0.violated}')
        r = tlc.run('KernelSeq', cfg_text=tlc.cfg(constants={'MaxBatches': maxb, 'RecordHist': True}, invariants=['Emit']), env={'CASES': path}, workers=1)
        chk.add_tlc('GEN:kernel sequences', r)
    finally:
        os.unlink(path)
    out = {}
    for e in r.emits():
        key = (e['case'], tuple((h['k'], h['kern']) for h in e['hist']))
        free = all(h['free'] for h in e['hist'])
        if key in out:
            out[key] = (out[key][0], out[key][1] or free)
        else:
            out[key] = (e['hist'], free)
    return out


def run(chk):
    memoise_lut()
    import numba
    from scared.distinguishers import partitioned as P
    if not getattr(P, '_VERIF', False):
        raise tlc.TLCError('the SCARED_VERIF hook is not active in scared.distinguishers.partitioned (hook commit missing or guard off)')
    rng = random.Random(chk.seed)
    chk.rule = ('TLC enumerates every ordered partition of the dataset into <= MaxBatches batches x every sequence of kernel choices; one evaluation = one history replayed on one '
                'real object with forced kernels under one thread count (state compared after every batch); non-trivial = history with >= 2 batches using both kernels, or any history of a '
                '>9-class case; plus unforced runs whose logged kernel sequence is checked against the choice-rule model')
    chk.assumptions += ['interleavings inside the numba kernels are exhaustive on the model (KernelRace.tla) and only sampled on the implementation (thread counts)',
                        'exact regime asserted per case; otherwise comparison within n x eps x magnitude', 'harness memoises partitioned._define_lut_func per class list']
    race_models(chk, rng)
    cases = make_cases(rng, chk.tier)
    maxb = 3 if chk.tier == 'quick' else 4
    hists = generate(chk, cases, maxb)
    threads = [1, 2, 16] if chk.tier == 'quick' else [1, 2, 3, 5, 8, 16]
    threads = [t for t in threads if t <= numba.config.NUMBA_NUM_THREADS] or [1]
    finals = {}
    allowed_free = {}
    for (ci, seq), (h, free) in sorted(hists.items()):
        case = cases[ci - 1]
        if free:
            allowed_free.setdefault(ci, set()).add(tuple(k for _, k in seq))
        for prec, pres in case['combos']:
            for nt in (threads if len(seq) >= 2 else threads[:1]):
                numba.set_num_threads(nt)
                ad = Adapter(case['c'], prec, pres)
                pos, bad = 0, None
                rep = case.get('rep', 1)
                for step, e in enumerate(h):
                    rows = case['rows'][pos:pos + e['k']] * rep
                    pos += e['k']
                    if rep > 1:
                        e = dict(e, acc=_scaled(e['acc'], rep))
                    P._VERIF_FORCE_KERNEL[:] = [e['kern'] - 1]
                    del P._VERIF_KERNEL_LOG[:]
                    ad.update(rows)
                    ran = list(P._VERIF_KERNEL_LOG)
                    P._VERIF_FORCE_KERNEL[:] = []
                    if ran != [e['kern'] - 1]:
                        raise tlc.TLCError(f'hook binding broken: forced kernel {e["kern"] - 1}, log says {ran} ({case["label"]})')
                    if ad.input_modified:
                        bad = {'step': step, 'clause': f'the caller\'s {ad.input_modified} array is left as it was given whichever kernel ran'}
                        break
                    if (step + len(h)) % 2 == 0:
                        # results asked for between two batches (convergence traces do it): the next batch - whichever kernel takes it - still adds to the same sums
                        try:
                            ad.compute()
                        except Exception:       # noqa - a statistic may be undefined at that point; only the accumulators are compared here
                            pass
                    exact = ad.exact_regime_ok(e['acc'])
                    try:
                        proj = ad.projection() if exact else None
                    except ValueError as ex:
                        bad = {'step': step, 'clause': 'accumulators are the exact sums whichever kernel ran', 'error': str(ex)[:300]}
                        break
                    if exact and proj != e['acc']:
                        diff = {k: {'spec': e['acc'][k], 'impl': proj[k]} for k in proj if proj[k] != e['acc'][k]}
                        bad = {'step': step, 'clause': 'state after the batch equals the specification state whichever kernel ran', 'diff': diff}
                        break
                    if not exact:
                        raw = ad.raw()
                        eps = float(np.finfo(prec).eps)
                        for k, v in e['acc'].items():
                            w = np.array(v, dtype='float64')
                            if not np.all(np.abs(raw[k] - w) <= 4 * (pos + 1) * eps * (np.abs(w) + 1)):
                                bad = {'step': step, 'clause': 'state within rounding of the precision whichever kernel ran', 'key': k, 'impl': raw[k].tolist(), 'spec': v}
                                break
                        if bad:
                            break
                nupd = len(seq)
                kinds = set(k for _, k in seq)
                chk.count((ci, seq, prec, pres, nt), nontrivial=(nupd >= 2 and len(kinds) == 2) or len(case['c']['classes']) > 9)
                chk.traces_validated += 1
                if not bad:
                    res = ad.compute()
                    fk = (ci, prec, pres)
                    exact_all = all(ad.exact_regime_ok(e['acc']) for e in h)
                    if fk not in finals:
                        finals[fk] = (res, seq, nt)
                    elif exact_all and not dh.same_bits(res, finals[fk][0]):
                        bad = {'step': len(h), 'clause': 'results are identical for every kernel sequence and thread count (exact regime)',
                               'this': np.asarray(res).tolist(), 'other': np.asarray(finals[fk][0]).tolist(), 'other_sequence': finals[fk][1], 'other_threads': finals[fk][2]}
                    elif not exact_all and not np.allclose(np.asarray(res, dtype='float64'), np.asarray(finals[fk][0], dtype='float64'), rtol=1e-3, equal_nan=True):
                        bad = {'step': len(h), 'clause': 'results agree up to rounding for every kernel sequence and thread count'}
                if bad:
                    chk.violation(f'{case["c"]["kind"]}:{bad["clause"]}', {'property': 'C11', 'case': {'c': case['c'], 'rows': case['rows']}, 'label': case['label'], 'history': h,
                                                                         'precision': prec, 'presentation': pres, 'threads': nt, 'disagreement': bad},
                                  f'{case["label"]} {prec}/{pres} threads={nt} kernels={[k for _, k in seq]}: {bad["clause"]}')
        if len(chk.samples) < 4 and len(seq) >= 2:
            chk.sample({'case': case['label'], 'batches_and_kernels': list(seq)})
    unforced(chk, cases, allowed_free, rng)
    mia_threads(chk, rng)
    numba.set_num_threads(min(16, numba.config.NUMBA_NUM_THREADS))


def mia_threads(chk, rng):
    """the MIA histogram for every thread count: few samples and many data words, many samples and few words, sample values on and next to interior bin
    edges (where the bin is decided by the configured edges) - the joint histogram is the same whatever the number of threads"""
    import numba
    import scared
    edges = np.linspace(0, 1, 11)
    vals = [float(e) for e in edges] + [float(np.nextafter(e, 0)) for e in edges[1:]] + [float(np.nextafter(e, 2)) for e in edges[:-1]] + [0.05, 0.55, 0.95, -0.2, 1.3]
    for S, W in ((1, 8), (2, 16), (9, 1), (3, 3)):
        n = 60
        t = np.array([[vals[(7 * i + 3 * j) % len(vals)] for j in range(S)] for i in range(n)], dtype='float64')
        d = np.array([[(i + 2 * j) % 4 for j in range(W)] for i in range(n)], dtype='uint8')
        ref = None
        for nt in (1, 2, 3, 4, 8, 16):
            if nt > numba.config.NUMBA_NUM_THREADS:
                continue
            numba.set_num_threads(nt)
            o = scared.MIADistinguisher(bin_edges=edges, partitions=np.arange(4))
            o.update(t[:25], d[:25])
            o.update(t[25:], d[25:])
            acc = np.array(o.accumulators)
            chk.count(('mia-threads', S, W, nt), nontrivial=nt > 1)
            chk.traces_validated += 1
            if ref is None:
                ref = acc
            elif acc.shape != ref.shape or not np.array_equal(acc, ref):
                chk.violation('mia:state after the batch equals the specification state whichever kernel ran (thread count)', {'property': 'C11', 'part': 'mia-threads', 'samples': S, 'words': W, 'threads': nt,
                                                                                                                            'cells_differing': int(np.sum(acc != ref)) if acc.shape == ref.shape else -1},
                              f'MIA joint histogram with {nt} threads differs from the one with 1 thread ({S} samples, {W} words)')
    numba.set_num_threads(min(16, numba.config.NUMBA_NUM_THREADS))


def unforced(chk, cases, allowed_free, rng):
    """(V) the code chooses by itself; its logged choices must be a behaviour of the choice-rule model."""
    from scared.distinguishers import partitioned as P
    n = 0
    for ci, case in enumerate(cases, 1):
        for rep in range(2 if chk.tier == 'quick' else 6):
            prec, pres = case['combos'][0]
            ad = Adapter(case['c'], prec, pres)
            rows = case['rows']
            cuts = sorted(rng.sample(range(1, len(rows)), min(len(rows) - 1, rng.randint(1, 2))))
            del P._VERIF_KERNEL_LOG[:]
            prev = 0
            for c in cuts + [len(rows)]:
                ad.update(rows[prev:c])
                prev = c
            seq = tuple(k + 1 for k in P._VERIF_KERNEL_LOG)
            n += 1
            chk.count(('V', ci, rep, seq), nontrivial=len(seq) >= 2)
            chk.traces_validated += 1
            ok = any(a[:len(seq)] == seq for a in allowed_free.get(ci, ())) or any(len(a) == len(seq) and a == seq for a in allowed_free.get(ci, ()))
            if not ok:
                chk.drift += 1       # K-model drift: the choice rule is a mechanism, not part of the property
    chk.extra['unforced_runs'] = n


def replay(chk, path):
    memoise_lut()
    import numba
    from scared.distinguishers import partitioned as P
    rp = json.load(open(path))
    if 'history' not in rp:
        return 2
    numba.set_num_threads(min(rp['threads'], numba.config.NUMBA_NUM_THREADS))
    ad = Adapter(rp['case']['c'], rp['precision'], rp['presentation'])
    pos = 0
    rep = rp['case'].get('rep', 1)
    for e in rp['history']:
        P._VERIF_FORCE_KERNEL[:] = [e['kern'] - 1]
        ad.update(rp['case']['rows'][pos:pos + e['k']] * rep)
        pos += e['k']
        if rep > 1:
            e = dict(e, acc=_scaled(e['acc'], rep))
        if ad.input_modified:
            print('the caller\'s array was modified')
            print(f'VIOLATION property=C11 replay={path}')
            return 1
        try:
            proj = ad.projection()
        except ValueError as ex:
            proj = str(ex)
        if ad.exact_regime_ok(e['acc']) and proj != e['acc']:
            print('state differs after batch', e['k'], 'kernel', e['kern'], proj, e['acc'])
            print(f'VIOLATION property=C11 replay={path}')
            return 1
    print('history replays without disagreement')
    return 0
