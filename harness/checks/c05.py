"""C05 - AES encrypt / decrypt and every intermediate stop point conform to FIPS-197.

(M) specs/AES.tla is FIPS-197 from first principles (GF(2^8) from xtime, S-box = affine o inverse, MixColumns from its
    matrices, key expansion recurrence).  specs/AESRun.tla runs it as a step machine, one transition per round operation:
    on every behaviour decrypt(encrypt(block)) = block, every inverse operation inverts its operation on every visited state,
    the Appendix C.1-C.3 ciphertexts and an Appendix A.1 schedule word are reproduced.  specs/AESStops.tla: the operation list
    the code builds for a stop point (K: _prepare_rounds, key flip for decrypt) is the prefix of length 4*round + step + 1 of the
    FIPS operation list with the FIPS round-key index - exhaustively for all 312 stop points; an off-by-one cut is refuted.
(G) every behaviour's trail is compared with scared.aes.encrypt / decrypt at EVERY (at_round, after_step), in the four
    broadcasting shapes, five integer dtypes, caller arrays unchanged; single round operations on 256-state families in which
    every byte value occurs at every position (every entry of every lookup table at every position).
(V) sequences of stop-point states recorded from the code are validated pairwise by specs/AESTrace.tla (failure localised
    to one operation of one round).
"""
import json
import os
import random

import numpy as np

from .. import ciphers
from .. import disthist as dh
from .. import tlc
from ..core import scribble

DTYPES = ['uint8', 'int16', 'int32', 'int64', 'uint16', '>u2', '>i4', '<u4']          # the last three: explicit byte orders (values are what counts, not their storage)


def stops_model(chk):
    r = tlc.run('AESStops', cfg_text=tlc.cfg(constants={'CutBug': 'none'}, invariants=['StopIsPrefixOfFips', 'KeysAreFips']), workers=4, timeout=300)
    chk.add_tlc('MC:312 stop points (structure)', r)
    if r.violated:
        raise tlc.TLCError(f'AESStops violates {r.violated}')
    r2 = tlc.run('AESStops', cfg_text=tlc.cfg(constants={'CutBug': 'offbyone'}, invariants=['StopIsPrefixOfFips']), workers=1, timeout=300)
    chk.add_tlc('MC:stop points (off-by-one cut, must be refuted)', r2)
    if not r2.violated:
        raise tlc.TLCError('AESStops lost sensitivity')


def run_machine(chk, cases, label, emit=True):
    path = dh.write_json(cases)
    try:
        r = tlc.run('AESRun', cfg_text=tlc.cfg(invariants=['KnownAnswers', 'DecryptInvertsEncrypt', 'InversesInvert', 'WindowsRecoverSchedule'] + (['Emit'] if emit else [])),
                    env={'CASES': path}, workers=8, timeout=3000, heap='6g')
    finally:
        os.unlink(path)
    chk.add_tlc(label, r)
    if r.violated:
        raise tlc.TLCError(f'AESRun violates {r.violated}\n' + '\n'.join(r.error_trace[:20]))
    out = {e['case'] - 1: e for e in r.emits()}
    if emit and len(out) != len(cases):
        raise tlc.TLCError(f'AESRun emitted {len(out)} behaviours for {len(cases)} cases')
    return out


def cmp(chk, got, want, sig, ctx, text):
    got = np.asarray(got)
    want = np.asarray(want, dtype='uint8')
    if got.shape != want.shape or not np.array_equal(got.astype('int64'), want.astype('int64')):
        chk.violation(sig, dict(ctx, property='C05', got=got.tolist(), expected=want.tolist()), text)
        return False
    scribble(got)         # the result is the caller's: whatever they write into it must not reach later results
    return True


def all_stops(chk, cases, beh, ci, dtype):
    import scared
    c = cases[ci]
    key = np.array(c['key'], dtype=dtype)
    blk = np.array(c['block'], dtype=dtype)
    nr = len(c['key']) // 4 + 6
    e = beh[ci]
    ct = np.array(e['enc'][-1], dtype=dtype)
    k0, b0, c0 = key.copy(), blk.copy(), ct.copy()
    for r in range(nr + 1):
        for s in range(4):
            chk.count(('stop', ci, r, s, dtype), nontrivial=True)
            ctx = {'part': 'stop', 'key': c['key'], 'block': c['block'], 'at_round': r, 'after_step': s, 'dtype': dtype}
            g = scared.aes.encrypt(blk, key, at_round=r, after_step=s)
            cmp(chk, g, e['enc'][4 * r + s], 'encrypt:state at (round, step) equals the FIPS-197 state after exactly that operation', dict(ctx, mode='encrypt'),
                f'encrypt at_round={r} after_step={s} (AES-{len(c["key"]) * 8})')
            g = scared.aes.decrypt(ct, key, at_round=r, after_step=s)
            cmp(chk, g, e['dec'][4 * r + s], 'decrypt:state at (round, step) equals the inverse-cipher state after exactly that operation', dict(ctx, mode='decrypt', block=e['enc'][-1]),
                f'decrypt at_round={r} after_step={s} (AES-{len(c["key"]) * 8})')
    g = scared.aes.encrypt(blk, key)
    cmp(chk, g, e['enc'][-1], 'encrypt:ciphertext', {'part': 'full', 'key': c['key'], 'block': c['block'], 'mode': 'encrypt'}, 'encrypt (full)')
    g = scared.aes.decrypt(ct, key)
    cmp(chk, g, c['block'], 'decrypt:plaintext (decrypt inverts encrypt)', {'part': 'full', 'key': c['key'], 'block': e['enc'][-1], 'mode': 'decrypt'}, 'decrypt (full)')
    if not (np.array_equal(key, k0) and np.array_equal(blk, b0) and np.array_equal(ct, c0)):
        chk.violation('caller arrays are not modified', {'property': 'C05', 'part': 'stop', 'key': c['key'], 'block': c['block']}, 'encrypt/decrypt modified an input array')
    chk.traces_validated += 1


def shapes(chk, cases, grid, beh, rng, nk, nb):
    """many blocks / one key, one block / many keys, pairs - at sampled stop points"""
    import scared
    for n in (16, 24, 32):
        nr = n // 4 + 6
        stops = [(rng.randint(0, nr), rng.randint(0, 3)) for _ in range(6)] + [(nr, 3), (0, 3), (nr, 0)]
        for (r, s) in stops:
            p = 4 * r + s
            dt = DTYPES[(r + s) % len(DTYPES)]
            for ki in range(nk):       # many blocks, one key
                idx = [grid[(n, ki, bi)] for bi in range(nb)]
                blocks = np.array([cases[i]['block'] for i in idx], dtype=dt)
                key = np.array(cases[idx[0]]['key'], dtype=dt)
                cts = np.array([beh[i]['enc'][-1] for i in idx], dtype=dt)
                chk.count(('shape', 'blocks', n, ki, r, s), nontrivial=True)
                ctx = {'part': 'shape', 'shape': 'many blocks, one key', 'keys': [cases[idx[0]]['key']], 'blocks': blocks.tolist(), 'at_round': r, 'after_step': s, 'dtype': dt}
                cmp(chk, scared.aes.encrypt(blocks, key, at_round=r, after_step=s), [beh[i]['enc'][p] for i in idx], 'encrypt:many blocks with one key', dict(ctx, mode='encrypt'), 'encrypt (N,16) x (16,)')
                cmp(chk, scared.aes.decrypt(cts, key, at_round=r, after_step=s), [beh[i]['dec'][p] for i in idx], 'decrypt:many blocks with one key', dict(ctx, mode='decrypt', blocks=cts.tolist()), 'decrypt (N,16) x (16,)')
            for bi in range(nb):       # one block, many keys
                idx = [grid[(n, ki, bi)] for ki in range(nk)]
                keys = np.array([cases[i]['key'] for i in idx], dtype=dt)
                blk = np.array(cases[idx[0]]['block'], dtype=dt)
                chk.count(('shape', 'keys', n, bi, r, s), nontrivial=True)
                ctx = {'part': 'shape', 'shape': 'one block, many keys', 'keys': keys.tolist(), 'blocks': [cases[idx[0]]['block']], 'at_round': r, 'after_step': s, 'dtype': dt}
                cmp(chk, scared.aes.encrypt(blk, keys, at_round=r, after_step=s), [beh[i]['enc'][p] for i in idx], 'encrypt:one block with many keys', dict(ctx, mode='encrypt'), 'encrypt (16,) x (N,nk)')
            m = min(nk, nb)            # pairs
            idx = [grid[(n, j, (j + 1) % nb)] for j in range(m)]
            keys = np.array([cases[i]['key'] for i in idx], dtype=dt)
            blocks = np.array([cases[i]['block'] for i in idx], dtype=dt)
            cts = np.array([beh[i]['enc'][-1] for i in idx], dtype=dt)
            chk.count(('shape', 'pairs', n, r, s), nontrivial=True)
            ctx = {'part': 'shape', 'shape': 'pairs', 'keys': keys.tolist(), 'blocks': blocks.tolist(), 'at_round': r, 'after_step': s, 'dtype': dt}
            cmp(chk, scared.aes.encrypt(blocks, keys, at_round=r, after_step=s), [beh[i]['enc'][p] for i in idx], 'encrypt:blocks paired with keys', dict(ctx, mode='encrypt'), 'encrypt pairs')
            cmp(chk, scared.aes.decrypt(cts, keys, at_round=r, after_step=s), [beh[i]['dec'][p] for i in idx], 'decrypt:blocks paired with keys', dict(ctx, mode='decrypt', blocks=cts.tolist()), 'decrypt pairs')


def reused_buffers(chk, cases, beh):
    """a caller may keep ONE key array and ONE block array and overwrite them in place between calls: every call must use the current contents"""
    import scared
    for n in (16, 24, 32):
        idx = [i for i, c in enumerate(cases) if len(c['key']) == n]
        kbuf = np.zeros(n, dtype='uint8')
        bbuf = np.zeros(16, dtype='uint8')
        for j, ci in enumerate(idx):
            kbuf[:] = cases[ci]['key']
            bbuf[:] = cases[ci]['block']
            nr = n // 4 + 6
            r, s = (j * 3) % (nr + 1), j % 4
            chk.count(('reuse', n, ci), nontrivial=j > 0)
            ctx = {'part': 'reuse', 'key': cases[ci]['key'], 'block': cases[ci]['block'], 'previous_key': cases[idx[j - 1]]['key'] if j else None, 'at_round': r, 'after_step': s}
            cmp(chk, scared.aes.encrypt(bbuf, kbuf), beh[ci]['enc'][-1], 'encrypt:a key / block array overwritten in place between calls is read afresh by every call', dict(ctx, mode='encrypt'), f'encrypt with reused buffers (AES-{n * 8})')
            cmp(chk, scared.aes.encrypt(bbuf, kbuf, at_round=r, after_step=s), beh[ci]['enc'][4 * r + s], 'encrypt:a key / block array overwritten in place between calls is read afresh by every call', dict(ctx, mode='encrypt'), 'encrypt stop point with reused buffers')
            cmp(chk, scared.aes.decrypt(np.array(beh[ci]['enc'][-1], dtype='uint8'), kbuf), cases[ci]['block'], 'decrypt:a key array overwritten in place between calls is read afresh by every call', dict(ctx, mode='decrypt'), 'decrypt with a reused key buffer')
        chk.traces_validated += 1


def large_batches(chk, cases, beh, sizes):
    """the batch forms are the row-wise map of the single-block cipher (the specification has no other notion of a batch): batches far larger than
    any internal chunking, whose rows cycle through the TLC-evaluated behaviours - every row, the last ones included, must be its own FIPS state"""
    import scared
    for n in (16, 24, 32):
        idx = [i for i, c in enumerate(cases) if len(c['key']) == n]
        nr = n // 4 + 6
        for N in sizes:
            rows = [idx[(j * 7 + N) % len(idx)] for j in range(N)]
            keys = np.array([cases[i]['key'] for i in idx], dtype='uint8')[[(j * 7 + N) % len(idx) for j in range(N)]]
            blocks = np.array([cases[i]['block'] for i in idx], dtype='uint8')[[(j * 7 + N) % len(idx) for j in range(N)]]
            r, s = (N + n) % (nr + 1), (N // 3) % 4
            p = 4 * r + s
            tab = {i: beh[i] for i in idx}
            def want(field, pos):
                t = np.array([tab[i][field][pos] for i in idx], dtype='uint8')
                return t[[(j * 7 + N) % len(idx) for j in range(N)]]
            cts = want('enc', -1)
            for name, got, exp in (('encrypt:blocks paired with keys (large batch)', scared.aes.encrypt(blocks, keys), cts),
                                   ('encrypt:blocks paired with keys (large batch, stop point)', scared.aes.encrypt(blocks, keys, at_round=r, after_step=s), want('enc', p)),
                                   ('decrypt:blocks paired with keys (large batch)', scared.aes.decrypt(cts, keys), blocks),
                                   ('decrypt:blocks paired with keys (large batch, stop point)', scared.aes.decrypt(cts, keys, at_round=r, after_step=s), want('dec', p))):
                chk.count(('large', n, N, name), nontrivial=True)
                got = np.asarray(got)
                if got.shape != exp.shape or not np.array_equal(got, exp):
                    badrow = int(np.nonzero(np.any(got != exp, axis=1))[0][-1]) if got.shape == exp.shape else -1
                    chk.violation(name, {'property': 'C05', 'part': 'large', 'rows': N, 'key_bytes': n, 'row': badrow, 'key': keys[badrow].tolist(), 'block': blocks[badrow].tolist(),
                                         'got': got[badrow].tolist() if badrow >= 0 else list(got.shape), 'expected': exp[badrow].tolist()},
                                  f'{name}: row {badrow} of {N} is not the FIPS state (AES-{n * 8})')
            # one key for all blocks of that key: rows restricted to the behaviours of one key
            k0 = cases[idx[0]]['key']
            same = [i for i in idx if cases[i]['key'] == k0]
            sel = [same[(j * 5 + 1) % len(same)] for j in range(N)]
            bl = np.array([cases[i]['block'] for i in sel], dtype='uint8')
            exp = np.array([beh[i]['enc'][-1] for i in sel], dtype='uint8')
            got = np.asarray(scared.aes.encrypt(bl, np.array(k0, dtype='uint8')))
            chk.count(('large', n, N, 'one key'), nontrivial=True)
            if got.shape != exp.shape or not np.array_equal(got, exp):
                chk.violation('encrypt:many blocks with one key (large batch)', {'property': 'C05', 'part': 'large', 'rows': N, 'key': k0}, f'encrypt of {N} blocks with one key: some row is not the FIPS ciphertext')
        chk.traces_validated += 1


def single_ops(chk):
    import scared
    r = tlc.run('AESOps', cfg_text=tlc.cfg(invariants=['ArkInvolution', 'Emit']), workers=1, timeout=600)
    chk.add_tlc('GEN:round operations on every byte value at every position', r)
    fn = {'sb': scared.aes.sub_bytes, 'isb': scared.aes.inv_sub_bytes, 'sr': scared.aes.shift_rows, 'isr': scared.aes.inv_shift_rows,
          'mc': scared.aes.mix_columns, 'imc': scared.aes.inv_mix_columns}
    mult = [0, 17, 101]
    for e in r.emits():
        f = e['fam']
        if f == 4:         # bytes below 128, carried by signed 8-bit, 16-bit and unsigned arrays in turn: a round operation is a function of the byte values
            sdt = ['int8', 'int16', 'uint8', 'int8', 'int64', 'int8', 'int8'][['sb', 'isb', 'sr', 'isr', 'mc', 'imc', 'ark'].index(e['op'])]
            states = np.array([[(v + 5 * k) % 128 for k in range(1, 17)] for v in range(256)], dtype=sdt)
            keys = np.array([[(3 * v + 29 * k + 7) % 128 for k in range(1, 17)] for v in range(256)], dtype=sdt)
        else:
            states = np.array([[(v + mult[f - 1] * k) % 256 for k in range(1, 17)] for v in range(256)], dtype='uint8')
            keys = np.array([[(3 * v + 29 * k + 7) % 256 for k in range(1, 17)] for v in range(256)], dtype='uint8')
        want = np.array(e['out'], dtype='uint8')
        s0 = states.copy()
        if e['op'] == 'ark':
            got = scared.aes.add_round_key(states, keys)
            got1 = np.array([scared.aes.add_round_key(states[i], keys[i]) for i in range(0, 256, 37)])
        else:
            got = fn[e['op']](states)
            got1 = np.array([fn[e['op']](states[i]) for i in range(0, 256, 37)])
        chk.evaluations += 256
        chk.nontrivial_count += 256
        ok = np.array_equal(np.asarray(got).astype('int64') % 256, want) and np.array_equal(np.asarray(got1).astype('int64') % 256, want[::37]) and np.array_equal(states, s0) and not np.any(np.asarray(got).astype('int64') < 0)
        if e['op'] in ('mc', 'imc'):     # the single-column helpers
            colfn = scared.aes.mix_column if e['op'] == 'mc' else scared.aes.inv_mix_column
            cols = colfn(states[:, 4:8])
            ok = ok and np.array_equal(np.asarray(cols).astype('int64'), want[:, 4:8].astype('int64'))
        if not ok:
            bad = int(np.nonzero(np.any(got != want, axis=1))[0][0]) if got.shape == want.shape and np.any(got != want) else -1
            chk.violation(f'{e["op"]}:round operation equals its FIPS definition on every state', {'property': 'C05', 'part': 'op', 'op': e['op'], 'family': f, 'state': states[bad].tolist() if bad >= 0 else None,
                                                                                                  'got': got[bad].tolist() if bad >= 0 else None, 'expected': want[bad].tolist() if bad >= 0 else None},
                          f'{e["op"]} differs from the specification (family {f}, state #{bad})')
        chk.traces_validated += 1


def recorded(chk, rng, n):
    """(V) successive stop points recorded from the code, validated by TLC"""
    import scared
    traces = []
    for i in range(n):
        nk = rng.choice([16, 24, 32])
        key = [rng.randint(0, 255) for _ in range(nk)]
        blk = [rng.randint(0, 255) for _ in range(16)]
        mode = 'enc' if i % 2 == 0 else 'dec'
        f = scared.aes.encrypt if mode == 'enc' else scared.aes.decrypt
        nr = nk // 4 + 6
        states = [blk] + [[int(x) for x in f(np.array(blk, dtype='uint8'), np.array(key, dtype='uint8'), at_round=r, after_step=s)] for r in range(nr + 1) for s in range(4)]
        traces.append({'key': key, 'mode': mode, 'states': states})
    path = dh.write_json(traces)
    try:
        r = tlc.run('AESTrace', cfg_text=tlc.cfg(invariants=['Verdict']), env={'TRACES': path}, workers=4, timeout=1200)
    finally:
        os.unlink(path)
    chk.add_tlc('TRACE:recorded stop-point sequences', r)
    verd = {t: b for t, b in r.emits('VERDICT')}
    if len(verd) != len(traces):
        raise tlc.TLCError('AESTrace: missing verdicts')
    for t, tr in enumerate(traces, 1):
        chk.count(('V', t), nontrivial=True)
        chk.traces_validated += 1
        if verd[t] != 0:
            p = verd[t]
            chk.violation(f'{tr["mode"]}:recorded stop-point sequence is a behaviour of the FIPS machine', {'property': 'C05', 'part': 'trace', 'key': tr['key'], 'mode': tr['mode'], 'input': tr['states'][0],
                                                                                                         'first_bad_operation': p, 'round': (p - 1) // 4, 'step': (p - 1) % 4},
                          f'{tr["mode"]}: operation {p} (round {(p - 1) // 4}, step {(p - 1) % 4}) is not the FIPS operation')


def run(chk):
    rng = random.Random(chk.seed)
    q = chk.tier == 'quick'
    nk, nb = (3, 3) if q else (12, 10)
    chk.rule = ('inputs: FIPS-197 Appendix C examples + a grid of (structured + seeded random) keys x blocks per key size; TLC runs each as a behaviour of the step machine; one evaluation = one '
                'stop point / shape / operation family compared; every (at_round, after_step) x {encrypt, decrypt} of every behaviour; every byte value at every position for every round operation')
    chk.assumptions += ['2^128 inputs are sampled; coverage of every lookup-table entry at every state position is exhaustive', 'at_round in [0, Nr] as quantified (Nr + 1 is accepted by the argument check but out of range)']
    stops_model(chk)
    cases, grid = ciphers.aes_inputs(rng, nk, nb)
    beh = run_machine(chk, cases, f'MC+GEN:{len(cases)} behaviours x (encrypt + decrypt)')
    for ci in range(len(cases)):
        all_stops(chk, cases, beh, ci, DTYPES[ci % len(DTYPES)])
    shapes(chk, cases, grid, beh, rng, nk, nb)
    reused_buffers(chk, cases, beh)
    large_batches(chk, cases, beh, [2 ** 16 + 37] if q else [2 ** 16 - 3, 2 ** 16 + 37, 2 ** 17 + 1, 3 * 2 ** 16 + 5])
    from .. import apirules
    apirules.run(chk, 'aes_stop', 'C05')
    single_ops(chk)
    recorded(chk, rng, 12 if q else 120)
    chk.sample({'key': cases[3]['key'], 'block': cases[3]['block'], 'state_after_round1_subbytes': beh[3]['enc'][4], 'ciphertext': beh[3]['enc'][-1]})


def replay(chk, path):
    import scared
    rp = json.load(open(path))
    if rp.get('part') in ('stop', 'full'):
        f = scared.aes.encrypt if rp['mode'] == 'encrypt' else scared.aes.decrypt
        kw = {} if rp['part'] == 'full' else {'at_round': rp['at_round'], 'after_step': rp['after_step']}
        got = f(np.array(rp['block'], dtype='uint8'), np.array(rp['key'], dtype='uint8'), **kw).tolist()
        print('got', got, 'expected', rp['expected'])
        if got != rp['expected']:
            print(f'VIOLATION property=C05 replay={path}')
            return 1
        return 0
    print('re-run ./check C05')
    return 0
