"""C14 - templates are class means with pooled covariance; matching is 10 - mean squared Mahalanobis distance.

(M) specs/Tpl.tla + TplCases.tla: for every driver-proposed building set TLC checks that the pooled covariance is symmetric
    positive semi-definite, that the pseudo-inverse satisfies A P A = A, P A P = P, and that the quantities as the code computes
    them from its accumulators (K: TemplateK, PooledK) equal the definitions (P); the pinned upstream rule "count <= 1 -> 2
    before the mean" is refuted on a class with a single building trace (sensitivity).
(G) every case is executed through the public TemplateAttack / TemplateDPAAttack classes on RAM containers (build(), run()),
    several batch sizes, both precisions: templates, pooled covariance, its pseudo-inverse and the matching scores must equal the
    exact rationals; run() before build() is refused and leaves the attack usable.
"""
import json
import random
from fractions import Fraction

import numpy as np

from .. import stats as st
from ..disthist import write_json as _wj
st.write_json = _wj
from .. import tlc
from ..dist import memoise_lut


def fr(r):
    return float(Fraction(r[0], r[1]))


def make_cases(rng, tier):
    n = 14 if tier == 'quick' else 80
    cases = []
    for i in range(n):
        S = 1 + (i % 2)
        classes = rng.choice([[0, 1], [2, 0, 1], [0, 1, 2], [5, 0, 300], [3, 1], [-2, 1, 0], [1, -1, -3]])      # incl. signed intermediate values declared as classes
        W = rng.choice([1, 2, 3])
        hi = 5 if S == 2 else 9
        build = [{'t': [rng.randint(0, hi) for _ in range(S)], 'd': [c]} for c in classes for _ in range(2)]
        build += [{'t': [rng.randint(0, hi) for _ in range(S)], 'd': [rng.choice(classes + ([77] if i % 3 == 0 else []))]} for _ in range(rng.randint(0, 5))]
        rng.shuffle(build)
        if i % 5 == 4:       # degenerate covariance: rank one / zero
            for r in build:
                r['t'] = [r['t'][0]] * S if i % 10 == 4 else [3] * S
        if i % 7 == 6:       # one class with a single building trace (its covariance contribution is the zero matrix)
            k = 0
            build = [r for r in build if r['d'][0] != classes[0]] + [{'t': [rng.randint(1, hi) for _ in range(S)], 'd': [classes[0]]}]
        if i % 7 == 3:       # one declared class without any building trace
            build = [r for r in build if r['d'][0] != classes[-1]]
        match = [{'t': [rng.randint(0, hi) for _ in range(S)], 'd': [rng.choice(classes) for _ in range(W)]} for _ in range(rng.randint(1, 5))]
        cases.append({'c': {'S': S, 'W': W, 'classes': classes, 'variant': 'fixed'}, 'build': build, 'match': match})
    # orthogonal designs: within every class the two samples are exactly uncorrelated, so the pooled covariance is exactly diagonal (in every precision);
    # presented with sample 0 multiplied by 4096 (TplCases.ScalingLemma) the two samples differ by seven orders of magnitude in variance
    for means in ([(2, 1), (6, 3)], [(3, 2), (9, 1), (5, 5)]):
        build = [{'t': [m0 + s0, m1 + s1], 'd': [k]} for k, (m0, m1) in enumerate(means) for s0 in (-1, 1) for s1 in (-1, 1)]
        match = [{'t': [rng.randint(0, 9), rng.randint(0, 6)], 'd': [rng.randrange(len(means))]} for _ in range(4)]
        cases.append({'c': {'S': 2, 'W': 1, 'classes': list(range(len(means))), 'variant': 'fixed'}, 'build': build, 'match': match, 'scale0': 4096})
    return cases


def containers(case, dtype, scale, offset=0):
    import scared
    b, m = case['build'] * case.get('rep', 1), case['match']
    vdt = 'int16' if min([x for r in b + m for x in r['d']] + [0]) < 0 else 'uint16'
    tb = (np.array([r['t'] for r in b], dtype='float64') * scale + offset).astype(dtype)
    vb = np.array([r['d'] for r in b], dtype=vdt)
    tm = (np.array([r['t'] for r in m], dtype='float64') * scale + offset).astype(dtype)
    hm = np.array([r['d'] for r in m], dtype=vdt)
    cb = scared.Container(scared.traces.read_ths_from_ram(samples=tb, v=vb))
    cm = scared.Container(scared.traces.read_ths_from_ram(samples=tm, h=hm))
    return cb, cm


def attacks(case, cb, precision, which):
    import scared

    @scared.reverse_selection_function
    def rsf(v):
        return v

    classes = np.array(case['c']['classes'], dtype='int32')
    if which == 'static':
        return scared.TemplateAttack(container_building=cb, reverse_selection_function=rsf, model=scared.Value(), partitions=classes, precision=precision)

    @scared.attack_selection_function(guesses=range(case['c']['W']), words=0)
    def asf(h, guesses):
        return h[:, :, None]
    return scared.TemplateDPAAttack(container_building=cb, reverse_selection_function=rsf, selection_function=asf, model=scared.Value(), partitions=classes, precision=precision)


def cmp(chk, sig, got, want, precision, kappa, ctx, text):
    got = np.asarray(got, dtype='float64')
    want = np.asarray(want, dtype='float64')
    chk.count((sig, precision, ctx.get('key')), nontrivial=True)
    eps = st.eps_of(precision)
    ok = got.shape == want.shape and np.all(np.isfinite(got)) and np.all(np.abs(got - want) <= 64 * eps * kappa * (np.abs(want) + ctx.get('mag', 1.0)))
    if not ok:
        chk.violation(sig, dict(ctx, property='C14', precision=precision, got=got.tolist(), expected=want.tolist()), f'{text} ({precision}): got {got.tolist()} expected {want.tolist()}')
    return ok


def run(chk):
    memoise_lut()
    import numba
    import scared
    numba.set_num_threads(2)
    rng = random.Random(chk.seed)
    chk.rule = ('driver-proposed building/matching sets (trace length 1-2, 2-3 declared classes in any order with gaps / values above 255, unbalanced, undeclared rows, '
                'degenerate covariances, single-trace classes); expected values are exact rationals from specs/TplCases.tla; one evaluation = one compared array '
                '(templates / pooled covariance / pseudo-inverse / static scores / DPA scores) of one attack object; distinct = (case, array, precision, batch size)')
    chk.assumptions += ['trace length <= 2 for the exact pseudo-inverse', 'a declared class with fewer than 2 building traces contributes the zero matrix to the pooled covariance, which is averaged over ALL declared classes; '
                        'templates claimed for every class with >= 1 trace', 'tolerance 64 eps x conditioning magnitude']
    enumerated(chk)
    cases = make_cases(rng, chk.tier)
    # sensitivity: the pinned rule is refuted on the model
    pinned = [{'c': {'S': 2, 'W': 1, 'classes': [0, 1], 'variant': 'pinned'}, 'build': [{'t': [4, 8], 'd': [0]}, {'t': [1, 2], 'd': [1]}, {'t': [3, 2], 'd': [1]}], 'match': []}]
    path = st.write_json(pinned)
    r0 = tlc.run('TplCases', cfg_text=tlc.cfg(invariants=['KMatchesP']), env={'CASES': path}, workers=1)
    chk.add_tlc('MC:template-mean(pinned rule, must be refuted)', r0)
    if not r0.violated:
        raise tlc.TLCError('TplCases lost sensitivity: "count <= 1 -> 2 before the mean" is no longer refuted')
    # building sets of more than a thousand traces: a small set presented rep times (TplCases.BuildReplication gives the profile), read as ONE batch.
    # The exact rationals of a replicated profile can leave TLC's 32-bit integers: candidates (one-sample cases first) are tried until two are evaluated.
    reps = []
    for base in sorted([c_ for c_ in cases if not c_.get('scale0')], key=lambda c_: (c_['c']['S'], len(c_['c']['classes']), len(c_['build'])))[:10]:
        cand = {'c': dict(base['c']), 'build': base['build'], 'match': base['match'], 'rep': [173, 260][len(reps)]}
        try:
            st.cases_run(chk, 'TplCases', [cand], ['BuildReplication'], f'CASES:replicated building set (candidate {len(reps) + 1})')
        except tlc.TLCError as ex:
            if 'Overflow' in str(ex):
                continue
            raise
        reps.append(cand)
        if len(reps) == 2:
            break
    cases += reps
    res = st.cases_run(chk, 'TplCases', cases, ['PInvLemma', 'KMatchesP', 'ScalingLemma', 'BuildReplication'], 'CASES:templates')
    # (dtype, scale, offset): the last two ride on offsets whose squares do not fit the traces' own integer type (templates shift, covariance and scores do not)
    pres = [('uint8', 1.0, 0), ('int16', 1.0, 0), ('float32', 0.5, 0), ('float64', 0.25, 0), ('uint8', 1.0, 100), ('int16', 1.0, 300)]
    old_bs = scared.Container._BATCH_SIZE
    try:
        for ci, (case, rs) in enumerate(zip(cases, res)):
            c = case['c']
            S = c['S']
            dt, sc, off = pres[ci % len(pres)]
            if off and (case.get('rep') or not all(any(r['d'][0] == cv for r in case['build']) for cv in c['classes'])):        # (replicated sets with an offset leave the exact range of float32 sums)
                off = 0            # a declared class without building traces keeps the zero template: the profile is shift-equivariant only when every class is populated
            for bs in ([None, 700] if case.get('rep') else [None, 3] if chk.tier == 'quick' else [None, 1, 2, 5]):
                scared.set_batch_size(bs)
                for prec in ('float32', 'float64'):
                    cb, cm = containers(case, dt, sc, off)
                    for which in ('static', 'dpa'):
                        a = attacks(case, cb, prec, which)
                        ctx = {'case': case, 'which': which, 'batch_size': bs, 'trace_dtype': dt, 'scale': sc, 'offset': off, 'key': (ci, which, bs)}
                        # matching before build is refused, and does not prevent build + run afterwards
                        try:
                            a.run(cm)
                            chk.violation('matching before build is refused', dict(ctx, property='C14'), 'run() before build() did not raise')
                        except Exception:
                            pass
                        if ci % 3 == 1 and len(case['build']) >= 4:
                            # the profile built in two steps: part of the building traces, build(), the rest through a second building container, build() again
                            half = len(case['build']) // 2
                            cbA, _ = containers(dict(case, build=case['build'][:half]), dt, sc, off)
                            cbB, _ = containers(dict(case, build=case['build'][half:]), dt, sc, off)
                            a = attacks(case, cbA, prec, which)
                            a.build()
                            a.container_building = cbB
                            ctx = dict(ctx, build_in_two_steps=half)
                        a.build()
                        nonempty = [k for k, cv in enumerate(c['classes']) if any(r['d'][0] == cv for r in case['build'])]
                        want_t = np.array([[fr(x) * sc + off for x in row] for row in rs['tpl']])
                        got_t = np.asarray(a.templates, dtype='float64')
                        big = max(1.0, float(np.abs(want_t).max()))
                        cmp(chk, 'template of a class is the mean of its building traces', got_t[nonempty], want_t[nonempty], prec, 4, dict(ctx, mag=big), 'templates')
                        want_p = np.array([[fr(x) for x in row] for row in rs['pooled']]) * sc * sc
                        nb = len(case['build'])
                        kap = 8 * nb * max(1.0, (hi_sq(case) * sc * sc) / max(1e-12, float(np.abs(want_p).max() or 1.0)))
                        okp = cmp(chk, 'pooled covariance is the average over declared classes of the unbiased within-class covariances', a.pooled_covariance, want_p, prec, kap,
                                  dict(ctx, mag=float(np.abs(want_p).max())), 'pooled covariance')
                        want_a = np.array([[fr(x) for x in row] for row in rs['pinv']]) / (sc * sc)
                        det_ok = S == 1 or abs(np.linalg.det(want_p)) > 1e-3 * float(np.abs(want_p).max() or 1) ** 2 or not np.any(want_p)
                        if prec == 'float64' or det_ok:
                            condn = np.linalg.cond(want_p) if np.any(want_p) and det_ok and S == 2 and abs(np.linalg.det(want_p)) > 0 else 1.0
                            # rank-deficient pooled covariance: pinv is discontinuous, compare only when the code's matrix is exactly singular too (float64, exact sums)
                            if S == 2 and np.any(want_p) and abs(np.linalg.det(want_p)) < 1e-12 and prec != 'float64':
                                pass
                            else:
                                oka = cmp(chk, 'pooled_covariance_inv is the pseudo-inverse of the pooled covariance', a.pooled_covariance_inv, want_a, prec, kap * condn * 4,
                                          dict(ctx, mag=float(np.abs(want_a).max())), 'pseudo-inverse')
                                if okp and oka:
                                    a.run(cm)
                                    want_s = np.array([fr(x) for x in rs['static' if which == 'static' else 'dpa']])
                                    magn = float(np.abs(10 - want_s).max()) + 10
                                    cmp(chk, f'{which} matching score is 10 - mean squared Mahalanobis distance to the candidate template', a.scores, want_s, prec, kap * condn * 8,
                                        dict(ctx, mag=magn), f'{which} scores')
                                    # asking again without new traces, then matching the same set a second time (every distance counted twice: the same mean)
                                    a.compute_results()
                                    cmp(chk, f'{which} matching score is 10 - mean squared Mahalanobis distance to the candidate template (results asked twice)', a.scores, want_s, prec, kap * condn * 8,
                                        dict(ctx, mag=magn, history='run, compute_results'), f'{which} scores after a second compute_results()')
                                    a.run(cm)
                                    cmp(chk, f'{which} matching score is 10 - mean squared Mahalanobis distance to the candidate template (set matched twice)', a.scores, want_s, prec, kap * condn * 8,
                                        dict(ctx, mag=magn, history='run, compute_results, run'), f'{which} scores after matching the same set twice')
            if case.get('scale0'):
                scaled_presentation(chk, case, rs, ci)
            chk.traces_validated += 1
    finally:
        scared.Container._BATCH_SIZE = old_bs
    chk.sample({'case': cases[0], 'expected': res[0]})


def scaled_presentation(chk, case, rs, ci):
    """sample 0 of every building and matching trace multiplied by 4096 (a power of two: every float operation scales exactly):
    templates and pooled covariance scale accordingly, the pseudo-inverse inversely, the scores do not change (TplCases.ScalingLemma)"""
    import scared
    k = case['scale0']
    D = np.array([k, 1.0])
    sc_case = {'c': case['c'], 'build': [{'t': [r['t'][0] * k, r['t'][1]], 'd': r['d']} for r in case['build']],
               'match': [{'t': [r['t'][0] * k, r['t'][1]], 'd': r['d']} for r in case['match']]}
    want_t = np.array([[fr(x) for x in row] for row in rs['tpl']]) * D
    want_p = np.array([[fr(x) for x in row] for row in rs['pooled']]) * np.outer(D, D)
    want_a = np.array([[fr(x) for x in row] for row in rs['pinv']]) / np.outer(D, D)
    scared.set_batch_size(None)
    for prec in ('float32', 'float64'):
        rtol = 2e-5 if prec == 'float32' else 1e-11
        for which in ('static', 'dpa'):
            cb, cm = containers(sc_case, 'int32', 1.0)
            a = attacks(sc_case, cb, prec, which)
            a.build()
            a.run(cm)
            want_s = np.array([fr(x) for x in rs['static' if which == 'static' else 'dpa']])
            ctx = {'property': 'C14', 'case': sc_case, 'which': which, 'batch_size': None, 'trace_dtype': 'int32', 'scale': 1.0, 'precision': prec, 'sample0_multiplied_by': k}
            for name, got, want in (('template of a class is the mean of its building traces', a.templates, want_t),
                                    ('pooled covariance is the average over declared classes of the unbiased within-class covariances', a.pooled_covariance, want_p),
                                    ('pooled_covariance_inv is the pseudo-inverse of the pooled covariance', a.pooled_covariance_inv, want_a),
                                    (f'{which} matching score is 10 - mean squared Mahalanobis distance to the candidate template', a.scores, want_s)):
                got = np.asarray(got, dtype='float64')
                chk.count((name, prec, ('scaled', ci, which)), nontrivial=True)
                if got.shape != want.shape or not np.allclose(got, want, rtol=rtol, atol=rtol * float(np.abs(want).max()) * 1e-3):
                    chk.violation(name + ' (samples of very different magnitude)', dict(ctx, got=got.tolist(), expected=want.tolist()), f'{name} with sample 0 x{k} ({prec}, {which}): got {got.tolist()} expected {want.tolist()}')
                    break


def enumerated(chk):
    """every small building set (TLC states) on the standalone template builder: templates, pooled covariance, pseudo-inverse"""
    import scared
    from scared.distinguishers import template as tpl

    class TB(scared.distinguishers.partitioned.PartitionedDistinguisherBase, tpl._TemplateBuildDistinguisherMixin):
        pass
    confs = [(1, {0, 1, 2, 3}, 5), (2, {0, 1, 2}, 4)] if chk.tier == 'quick' else [(1, {0, 1, 2, 3}, 6), (2, {0, 1, 2}, 5)]
    for S, tv, mx in confs:
        r = tlc.run('TplEnum', cfg_text=tlc.cfg(constants={'S': S, 'TVals': tv, 'MaxN': mx, 'Gen': True}, invariants=['Lemmas', 'MeanLemma', 'Emit']), workers=1, timeout=3000)
        chk.add_tlc(f'MC+GEN:every building set S={S} values {sorted(tv)} up to {mx} rows', r)
        if r.violated:
            raise tlc.TLCError(f'TplEnum violates {r.violated}')
        for i, e in enumerate(r.emits()):
            if chk.tier == 'quick' and S == 2 and i % 3:
                continue
            rows = e['rows']
            dt = ['uint8', 'int16', 'float32', 'float64'][i % 4]
            t = np.array([x['t'] for x in rows], dtype=dt)
            d = np.array([x['d'] for x in rows], dtype='uint8')
            for prec in (('float32', 'float64') if i % 5 == 0 else ('float64',)):
                o = TB(partitions=np.array([1, 0], dtype='int32'), precision=prec)
                cut = 1 + i % len(rows)
                o.update(t[:cut], d[:cut])
                if cut < len(rows):
                    o.update(t[cut:], d[cut:])
                tp = np.asarray(o.compute(), dtype='float64')
                ctx = {'case': {'rows': rows, 'classes': [1, 0]}, 'which': 'builder', 'batch_size': cut, 'trace_dtype': dt, 'scale': 1.0, 'key': ('E', S, i)}
                want_t = np.array([[fr(x) for x in row] for row in e['tpl']])
                cmp(chk, 'template of a class is the mean of its building traces', tp, want_t, prec, 4, dict(ctx, mag=4.0), 'templates (builder)')
                want_p = np.array([[fr(x) for x in row] for row in e['pooled']])
                cmp(chk, 'pooled covariance is the average over declared classes of the unbiased within-class covariances', o.pooled_covariance, want_p, prec, 64, dict(ctx, mag=10.0), 'pooled covariance (builder)')
                want_a = np.array([[fr(x) for x in row] for row in e['pinv']])
                singular = S == 2 and abs(np.linalg.det(want_p)) < 1e-12 and np.any(want_p)
                if not singular or prec == 'float64':
                    condn = np.linalg.cond(want_p) if (S == 2 and not singular and np.any(want_p)) else 1.0
                    if not (singular and not np.allclose(np.asarray(o.pooled_covariance), want_p, rtol=0, atol=0)):
                        cmp(chk, 'pooled_covariance_inv is the pseudo-inverse of the pooled covariance', o.pooled_covariance_inv, want_a, prec, 256 * condn, dict(ctx, mag=float(np.abs(want_a).max()) + 1), 'pseudo-inverse (builder)')
            chk.traces_validated += 1


def hi_sq(case):
    return max(max(abs(x) for x in r['t']) for r in case['build']) ** 2 + 1


def replay(chk, path):
    memoise_lut()
    import scared
    rp = json.load(open(path))
    case = rp['case']
    old = scared.Container._BATCH_SIZE
    try:
        scared.set_batch_size(rp['batch_size'])
        cb, cm = containers(case, rp['trace_dtype'], rp['scale'], rp.get('offset', 0))
        a = attacks(case, cb, rp['precision'], rp['which'])
        a.build()
        print('templates now:', np.asarray(a.templates).tolist())
        print('pooled now:', np.asarray(a.pooled_covariance).tolist())
        exp = np.array(rp['expected'])
        got = {tuple(np.asarray(x).shape): np.asarray(x, dtype='float64') for x in (a.templates, a.pooled_covariance, a.pooled_covariance_inv)}
        if cm is not None and len(case['match']):
            a.run(cm)
            for step in rp.get('history', 'run').split(', ')[1:]:
                a.compute_results() if step == 'compute_results' else a.run(cm)
            got[tuple(np.asarray(a.scores).shape)] = np.asarray(a.scores, dtype='float64')
        print('recorded expected:', exp.tolist(), 'recorded got:', rp['got'])
        if not any(g.shape == exp.shape and np.allclose(g, exp, rtol=1e-3, atol=1e-3) for g in got.values()):
            if not (exp.ndim == 2 and np.asarray(a.templates).shape[1:] == exp.shape[1:] and exp.shape[0] < np.asarray(a.templates).shape[0]):   # templates of non-empty classes only
                print(f'VIOLATION property=C14 replay={path}')
                return 1
        print('no longer reproduced')
    finally:
        scared.Container._BATCH_SIZE = old
    return 0
