"""C04 - ANOVA / NICV / SNR equal their definitions over value classes; empty classes irrelevant; undefined -> NaN.

(M) specs/StatsEnum.tla (Kind = "classes") enumerates every multiset of observations over a small grid with declared,
    undeclared and empty classes; in every state: SST = SSB + SSW, the three _compute_metric formulas as the code evaluates
    them on per-class <<count, sum, sum of squares>> (K) equal the definitions on the raw observations (P), reordering the
    class list or declaring an extra unused class changes nothing, and no result is infinite.
(G) every enumerated state is replayed on ANOVADistinguisher / NICVDistinguisher / SNRDistinguisher (both precisions);
    specs/StatsCases.tla supplies expected values for unbalanced multi-word datasets with up to 12 declared classes (both
    accumulation regimes) and for automatically derived class sets (first-batch maxima in <=8, <=63, <=255).
"""
import json
import random

import numpy as np

from .. import stats as st
from .. import disthist as dh
from ..dist import memoise_lut

# the last three ride on offsets whose squares do not fit the traces' own integer type (60^2 > 255, 200^2 > 32767, 12^2 > 127)
PRES = [('uint8', 0, 1.0), ('int16', -2, 1.0), ('float32', -2, 0.25), ('float64', 0, 0.5), ('uint8', 60, 1.0), ('int16', 200, 1.0), ('int8', 12, 1.0)]
CLS = {'f': 'ANOVADistinguisher', 'nicv': 'NICVDistinguisher', 'snr': 'SNRDistinguisher'}


REFUSALS = [0]
MODIFIED = []          # filled by run_obj when an update changed the arrays it was given


def run_obj(cls, precision, t, d, classes, split=False):
    import scared
    o = getattr(scared, cls)(partitions=None if classes is None else np.array(classes, dtype='int32'), precision=precision)
    if split and len(t) >= 2:
        # rows sorted by class value: the classes of the second part are still empty when the first result is asked for
        order = np.argsort(d[:, 0], kind='stable') if classes is not None else np.arange(len(t))
        cut = max(1, len(t) // 2)
        ta, da, tb, db = t[order[:cut]], d[order[:cut]], t[order[cut:]], d[order[cut:]]
        keep = [x.copy() for x in (ta, da, tb, db)]
        o.update(ta, da)
        try:
            o.compute()
        except Exception:     # noqa - a result may be undefined at that point; only the final one is compared
            pass
        # a batch the object refuses (half-precision traces: no compiled kernel takes them) is not part of "the traces": nothing of it may be counted
        REFUSALS[0] += 1
        if REFUSALS[0] % 400 == 1:        # (every failed kernel specialisation costs a compilation attempt: a sample of the split presentations)
            try:
                o.update(tb.astype('float16'), db)
                raise AssertionError('harness: half-precision traces were accepted')
            except AssertionError:
                raise
            except Exception:       # noqa - the refusal itself
                pass
        o.update(tb, db)
        if not all(np.array_equal(x, y) for x, y in zip((ta, da, tb, db), keep)):
            MODIFIED.append('split')
    else:
        t0, d0 = t.copy(), d.copy()
        o.update(t, d)
        if not (np.array_equal(t, t0) and np.array_equal(d, d0)):
            MODIFIED.append('single')
    first = np.asarray(o.compute())
    again = np.asarray(o.compute())              # asking again, without new data, must give the same statistic
    if first.shape != again.shape or not np.array_equal(first, again, equal_nan=True):
        return again
    return first


def check_entry(chk, metric, precision, got, r, kappa, ctx):
    cls = CLS[metric]
    if MODIFIED:
        del MODIFIED[:]
        chk.violation(f'{cls}:the arrays given to update are left as they were (the next distinguisher is fed the same arrays)', dict(ctx, property='C04', cls=cls, precision=precision),
                      f'{cls}/{precision}: update modified the traces / data arrays it was given')
    want = st.frac(r)
    chk.count((metric, precision, ctx.get('key')), nontrivial=True)
    ok = st.agree(got, want, 0.0, precision, c=st.C_TOL * kappa) if want is not None else bool(np.isnan(got))
    if not ok:
        clause = 'undefined ratio is NaN (never infinite)' if want is None else 'result equals its definition over the non-empty value classes'
        chk.violation(f'{cls}:{clause}', dict(ctx, property='C04', cls=cls, precision=precision, got=float(got), expected=None if want is None else float(want),
                                             expected_rational=r, clause=clause),
                      f'{cls}/{precision}: got {got}, expected {"NaN" if want is None else float(want)}')


def run(chk):
    memoise_lut()
    import numba
    numba.set_num_threads(2)      # tiny arrays: thread fan-out only costs time here (C11 varies the thread count)
    tier = chk.tier
    maxn = 4 if tier == 'quick' else 5
    chk.rule = ('TLC enumerates every multiset of 2..MaxN observations <<x, v>>, x in 0..3, v in {0,1,2,5} with declared classes <<0,2,1>> and <<7,1,2>> '
                '(5 undeclared; with the second list also 0, below the smallest class; 7 always empty); one evaluation = one result entry of one real distinguisher (metric x precision x presentation) compared with the '
                'exact rational TLC derived from the definition; plus driver-proposed unbalanced multi-word datasets (3..12 declared classes, automatic class sets)')
    chk.assumptions += ['integer-valued samples (also shifted / scaled presentations: the three ratios are invariant)',
                        'tolerance = 64 eps x cancellation factor (sum of squares / smallest non-zero sum-of-squares component) computed from the data',
                        'harness memoises partitioned._define_lut_func per class list']
    invs = ['ClassLemmas', 'ClassOrderIrrelevant', 'ExtraClassIrrelevant', 'NoInfinity']
    for cl in ([0, 2, 1], [7, 1, 2]):         # second list: 0 is undeclared and BELOW the smallest class, 5 undeclared in between, 7 always empty
        st.enum_run(chk, 'classes', maxn, 2, range(4), [0, 1, 2, 5], cl, False, invs, f'MC:classes{cl}')
        r = st.enum_run(chk, 'classes', maxn, 2, range(4), [0, 1, 2, 5], cl, True, [], f'GEN:classes{cl}')
        for i, e in enumerate(r.emits()):
            ps = e['ps']
            dt, sh, sc = PRES[i % len(PRES)]
            t = ((np.array([[p[0]] for p in ps], dtype='float64') + sh) * sc).astype(dt)
            d = np.array([[p[1]] for p in ps], dtype=['uint8', 'int16', 'uint16', 'int32'][(i // 4) % 4])
            kappa = st.class_kappa([(p[0] + sh, p[1]) for p in ps] if sh > 0 else ps, cl)
            for metric in ('f', 'nicv', 'snr'):
                for prec in ('float32', 'float64'):
                    got = run_obj(CLS[metric], prec, t, d, cl, split=(i % 3 == 0))
                    if got.shape != (1, 1):
                        chk.violation(f'{CLS[metric]}:result layout', {'property': 'C04', 'ps': ps, 'shape': list(got.shape)}, f'shape {got.shape}')
                        continue
                    check_entry(chk, metric, prec, got[0, 0], e[metric], kappa, {'ps': ps, 'classes': cl, 'trace_dtype': dt, 'pres': [dt, sh, sc], 'split': i % 3 == 0, 'key': (tuple(cl), i)})
            if i % 1499 == 0:
                chk.sample({'observations': ps, 'classes': cl, 'F': e['f'], 'NICV': e['nicv'], 'SNR': e['snr']})
            chk.traces_validated += 1
    bigger(chk)


def bigger(chk):
    rng = random.Random(chk.seed)
    ncase = 12 if chk.tier == 'quick' else 60
    cases, autos = [], []
    for i in range(ncase):
        mode = i % 6
        if mode == 5:
            classes, auto = [4, 7, 0, 9], False                # same length, first and last class as mode 1 - another set (objects of one process share nothing)
        elif mode == 0:
            classes, auto = list(range(12)), False             # > 9 classes: kernel 1 regime
        elif mode == 1:
            classes, auto = [4, 300, 0, 9], False              # gaps, value above 255, unordered
        elif mode == 2:
            classes, auto = None, 8                            # automatic, first-batch maximum <= 8
        elif mode == 3:
            classes, auto = None, rng.choice([9, 40, 63])
        else:
            classes, auto = None, rng.choice([64, 100, 255])
        S, W = rng.choice([(2, 2), (1, 3), (3, 1)])
        n = rng.randint(4, 12)
        if auto is not False:
            pool = sorted(set([auto] + [rng.randint(0, auto) for _ in range(3)]))
            dvals = pool
            spec_classes = pool                                 # any class set containing the present values gives the same ratios
        else:
            dvals = classes[:5] + [77]                          # 77 undeclared
            spec_classes = classes
        c = dh.base_cfg('part', S=S, W=W, classes=spec_classes)
        rows = dh.random_rows(rng, c, n, tmax=15, dvals=dvals)
        if auto is not False:
            rows[0]['d'][0] = auto                              # the maximum is in the first batch
        cases.append({'c': c, 'rows': rows})
        autos.append(None if auto is False else auto)
    res = st.cases_run(chk, 'StatsCases', cases, ['KMatchesP'], 'CASES:unbalanced+auto')
    for ci, (case, rs) in enumerate(zip(cases, res)):
        c, rows = case['c'], case['rows']
        dt, sh, sc = PRES[ci % len(PRES)]
        t = ((np.array([r['t'] for r in rows], dtype='float64') + sh) * sc).astype(dt)
        d = np.array([r['d'] for r in rows], dtype='uint16')
        for metric in ('f', 'nicv', 'snr'):
            for prec in ('float32', 'float64'):
                got = run_obj(CLS[metric], prec, t, d, None if autos[ci] is not None else c['classes'], split=(ci % 2 == 1 and autos[ci] is None))
                if got.shape != (c['W'], c['S']):
                    chk.violation(f'{CLS[metric]}:result layout', {'property': 'C04', 'case': case, 'shape': list(got.shape)}, f'shape {got.shape}')
                    continue
                for j, r in enumerate(rs[metric]):
                    w, s = j // c['S'], j % c['S']
                    ps = [(rr['t'][s], rr['d'][w]) for rr in rows]
                    kappa = st.class_kappa([(x + sh, v) for x, v in ps] if sh > 0 else ps, c['classes'])
                    check_entry(chk, metric, prec, got[w, s], r, kappa, {'case': case, 'auto_first_batch_max': autos[ci], 'entry': [w, s], 'trace_dtype': dt, 'pres': [dt, sh, sc], 'split': bool(ci % 2 == 1 and autos[ci] is None), 'key': ('B', ci, j)})
        chk.traces_validated += 1
    chk.sample({'unbalanced_case': {'classes': cases[0]['c']['classes'], 'rows': cases[0]['rows'][:4]}})
    # many data words: the result for a word depends on that word's column only (the definition is per (word, sample)), so a case whose words are
    # the columns of a small TLC-evaluated case repeated cyclically has the small case's results, cyclically - 1100 and 2500 words, two updates
    for ci in [i for i, a_ in enumerate(autos) if a_ is None and cases[i]['c']['W'] >= 2][:2 if chk.tier == 'quick' else 6]:
        case, rs = cases[ci], res[ci]
        c, rows = case['c'], case['rows']
        t = np.array([r['t'] for r in rows], dtype='int16')
        d0 = np.array([r['d'] for r in rows], dtype='uint16')
        for Wbig in (1100, 2500):
            sel = [j % c['W'] for j in range(Wbig)]
            d = d0[:, sel]
            for metric in ('f', 'nicv', 'snr'):
                got = run_obj(CLS[metric], 'float64', t, d, c['classes'], split=True)
                chk.count(('manywords', ci, Wbig, metric), nontrivial=True)
                want = np.array([[np.nan if st.frac(rs[metric][w * c['S'] + s_]) is None else float(st.frac(rs[metric][w * c['S'] + s_])) for s_ in range(c['S'])] for w in sel])
                ok = got.shape == want.shape and np.allclose(got, want, rtol=1e-9, atol=1e-12, equal_nan=True)
                if not ok:
                    w_bad = int(np.nonzero(~np.isclose(got, want, rtol=1e-9, atol=1e-12, equal_nan=True).all(axis=1))[0][0]) if got.shape == want.shape else -1
                    chk.violation(f'{CLS[metric]}:result equals its definition over the non-empty value classes (many data words)',
                                  {'property': 'C04', 'case': case, 'words': Wbig, 'first_bad_word': w_bad, 'cls': CLS[metric], 'precision': 'float64'}, f'{CLS[metric]} with {Wbig} data words: word {w_bad} differs from its definition')
        chk.traces_validated += 1


def replay(chk, path):
    memoise_lut()
    rp = json.load(open(path))
    dt, sh, sc = rp.get('pres', ['int16', 0, 1.0])
    if 'ps' in rp:
        ps = rp['ps']
        t = ((np.array([[p[0]] for p in ps], dtype='float64') + sh) * sc).astype(dt)
        d = np.array([[p[1]] for p in ps]).astype('uint16')
        classes = rp['classes']
        e = [0, 0]
    else:
        c, rows = rp['case']['c'], rp['case']['rows']
        t = ((np.array([r['t'] for r in rows], dtype='float64') + sh) * sc).astype(dt)
        d = np.array([r['d'] for r in rows], dtype='uint16')
        classes = None if rp.get('auto_first_batch_max') is not None else c['classes']
        e = rp['entry']
    got = run_obj(rp['cls'], rp['precision'], t, d, classes, split=rp.get('split', False))
    g, exp = got[e[0], e[1]], rp.get('expected')
    print('result now:', g, 'expected:', exp)
    ok = (np.isnan(g) if exp is None else (not np.isnan(g) and abs(g - exp) <= 1e-3 * (1 + abs(exp))))
    if not ok:
        print(f'VIOLATION property=C04 replay={path}')
        return 1
    return 0
