"""C17 - on simulated leakage every attack ranks the true key first.

(M) specs/PipelineAES.tla / PipelineDES.tla: for the chosen input set the specification computes, with its own Hyp (tied to
    the real cipher state by the theorem of C07), the intermediate under the true key words taken from the SPECIFICATION's key
    schedule, the noise-free leakage Model(intermediate), bounded noise, and checks identifiability: no offered wrong guess
    induces the same (or complementary, for sign-free statistics) leakage column as the true key.
(G) the trace matrix TLC emits (word j leaks at sample j as 4 * leakage + noise in {-1, 0, 1}) is attacked through the public
    pipeline (read_ths_from_ram, Container, ready-made selection function with words / guesses, model, discriminant,
    <X>Attack.run) for CPA, DPA, ANOVA, NICV, SNR, MIA and template-DPA, several batch sizes: for every attacked word the unique
    highest score is at the guess equal to the specification's key word, which is also what compute_expected_key returns.
"""
import json
import os
import random

import numpy as np

from .. import disthist as dh
from .. import tlc
from ..dist import memoise_lut
from . import c05, c06


def spec_round_keys_aes(chk, keys):
    cases = [{'key': list(range(n)), 'block': [0x11 * i for i in range(16)]} for n in (16, 24, 32)] + [{'key': k, 'block': [0] * 16} for k in keys]
    beh = c05.run_machine(chk, cases, 'MC+GEN:AES schedules of the attacked keys')
    out = []
    for i, k in enumerate(keys):
        sched = beh[i + 3]['sched']
        nr = len(k) // 4 + 6
        out.append({'first': [b for w in sched[0:4] for b in w], 'last': [b for w in sched[4 * nr:4 * nr + 4] for b in w]})
    return out


def spec_round_keys_des(chk, keys):
    cases = [c06.KAT] + [{'keys': [k], 'block': [0] * 8} for k in keys]
    beh = c06.run_machine(chk, cases, 'MC+GEN:DES schedules of the attacked keys')
    return [{'first': beh[i + 1]['rk'][0][0], 'last': beh[i + 1]['rk'][0][15]} for i in range(len(keys))]


def config(fn, inputs, kw, words, guesses, model, symmetric, seed):
    return {'fn': fn, 'inputs': inputs, 'kw': kw, 'words': [w + 1 for w in words], 'guesses': guesses, 'model': model, 'nsamples': len(words) + 2, 'seed': seed, 'symmetric': symmetric}


def simulate_all(chk, module, configs, label):
    """one TLC run for all configurations of a cipher; returns per configuration the trace matrix, or None when the specification
    finds the true key not identifiable on that input set (symmetric combination: the statement does not apply)"""
    path = dh.write_json(configs)
    try:
        r = tlc.run(module, cfg_text=tlc.cfg(invariants=['Emit']), env={'CASES': path}, workers=8, timeout=3000, heap='8g')
    finally:
        os.unlink(path)
    chk.add_tlc(label, r)
    by = {}
    for e in r.emits():
        by.setdefault(e['ci'] - 1, {})[e['j'] - 1] = e
    out = []
    for ci, c in enumerate(configs):
        em = by.get(ci, {})
        if len(em) != len(c['words']):
            raise tlc.TLCError(f'{module}: configuration {ci} emitted {len(em)} of {len(c["words"])} words')
        if not all(em[j]['identifiable'] for j in em):
            out.append(None)
            continue
        traces = np.array(em[0]['noise'], dtype='int16').copy()
        for j in range(len(c['words'])):
            traces[:, j] += 4 * np.array(em[j]['leak'], dtype='int16')
        out.append(traces)
    return out


def present(traces, fn, attack):
    """the same simulated matrix in several storage types: int16 as emitted, uint8 / float32 (shifted by +2 so that it is non-negative)"""
    k = (len(fn) + len(attack)) % 3
    if attack == 'TPL':
        return traces
    if k == 0 or attack == 'DPA':
        return (traces + 2).astype('uint8')
    if k == 1:
        return (traces + 2).astype('float32')
    return traces


def attack_once(cipher, fn, attack, key, meta_in, traces, guesses, words, bs, kw_words, cstep=None):
    import scared
    mod = getattr(scared, cipher).selection_functions.encrypt
    tag = 'ciphertext' if (fn.startswith('Last') or fn.endswith('LastRounds')) else 'plaintext'
    # the trace set also carries unrelated metadata, among them a field literally named `data` (acquisition payload) and the field the function does NOT use
    arr_in = np.array(meta_in, dtype='uint8')
    decoy = (arr_in.astype('int64') * 13 + 101).astype('uint8')
    ths = scared.traces.read_ths_from_ram(samples=present(traces, fn, attack), **{tag: arr_in, 'key': np.array([key] * len(meta_in), dtype='uint8'), 'data': decoy,
                                                                               ('plaintext' if tag == 'ciphertext' else 'ciphertext'): decoy[:, ::-1].copy()})
    scared.set_batch_size(bs)
    sfw = getattr(mod, fn)(guesses=np.array(guesses, dtype='uint8'), words=np.array(words, dtype='uint8'))
    hw = scared.HammingWeight()
    if attack == 'CPA':
        disc = scared.nanmax if 'AddRoundKey' in fn else scared.maxabs
        a = scared.CPAAttack(selection_function=sfw, model=hw, discriminant=disc, precision='float64', convergence_step=cstep)
    elif attack == 'DPA':
        a = scared.DPAAttack(selection_function=sfw, model=scared.Monobit(0), discriminant=scared.maxabs, precision='float64', convergence_step=cstep)
    elif attack in ('ANOVA', 'NICV', 'SNR'):
        a = getattr(scared, attack + 'Attack')(selection_function=sfw, model=hw, discriminant=scared.maxabs, partitions=range(9), precision='float64', convergence_step=cstep)
    elif attack == 'MIA':
        a = scared.MIAAttack(selection_function=sfw, model=hw, discriminant=scared.maxabs, partitions=range(9), bin_edges=np.linspace(-2, 40, 11), convergence_step=cstep)
    else:       # template DPA on the first attacked word: build with the intermediate under the true key, match with hypotheses
        w0 = words[0]
        one = getattr(mod, fn)(guesses=np.array([kw_words[w0]], dtype='uint8'), words=w0)
        if tag == 'plaintext':
            @scared.reverse_selection_function
            def rsf(plaintext):
                return one(plaintext=plaintext)
        else:
            @scared.reverse_selection_function
            def rsf(ciphertext):
                return one(ciphertext=ciphertext)
        sf1 = getattr(mod, fn)(guesses=np.array(guesses, dtype='uint8'), words=w0)
        a = scared.TemplateDPAAttack(container_building=scared.Container(ths, frame=[0]), reverse_selection_function=rsf, selection_function=sf1, model=hw, partitions=range(9), precision='float64')
        a.build()
        a.run(scared.Container(ths, frame=[0]))
        return a, sfw, np.asarray(a.scores).reshape(len(guesses), 1), [w0]
    a.run(scared.Container(ths))
    return a, sfw, np.asarray(a.scores), list(words)


def run(chk):
    memoise_lut()
    import numba
    import scared
    numba.set_num_threads(4)
    rng = random.Random(chk.seed)
    q = chk.tier == 'quick'
    chk.rule = ('keys: seeded random (AES-128/192/256, DES); inputs: per-byte full codebooks (AES, N = 256) / seeded random blocks (DES, N = 512); for each selection function x attack class x batch size the '
                'specification emits the trace matrix and the attack is run through the public pipeline; one evaluation = one attacked word of one run; non-trivial = all (32 / 64 guesses compete); combinations the '
                'specification finds non-identifiable (symmetric) are skipped and counted')
    chk.assumptions += ['ciphertexts for last-round functions come from scared.aes/des.encrypt (tied to FIPS by C05/C06); key words come from the specification schedule',
                        'noise amplitude 1 against a leakage step of 4 (wide margin, as the statement presupposes); AddRoundKey targets only with the signed CPA discriminant']
    old = scared.Container._BATCH_SIZE
    skipped = 0
    try:
        # ---------------- AES
        akeys = [[rng.randint(0, 255) for _ in range(n)] for n in ((16, 24, 32) if q else (16, 24, 32, 16))]
        ark = spec_round_keys_aes(chk, akeys)
        N = 256
        mult = [2 * rng.randint(0, 127) + 1 for _ in range(16)]
        off = [rng.randint(0, 255) for _ in range(16)]
        pts = [[(mult[j] * i + off[j]) % 256 for j in range(16)] for i in range(N)]
        afns = [('FirstSubBytes', ['CPA', 'DPA', 'ANOVA', 'NICV', 'SNR', 'MIA', 'TPL']), ('LastSubBytes', ['CPA', 'DPA', 'SNR', 'TPL'] if q else ['CPA', 'DPA', 'ANOVA', 'NICV', 'SNR', 'MIA', 'TPL']),
                ('DeltaRLastRounds', ['CPA', 'ANOVA'] if q else ['CPA', 'DPA', 'ANOVA', 'NICV', 'SNR', 'MIA']), ('FirstAddRoundKey', ['CPA']), ('LastAddRoundKey', ['CPA'])]
        run_i = 0
        aplan, dplan = [], []
        for ki, key in enumerate(akeys):
            cts = scared.aes.encrypt(np.array(pts, dtype='uint8'), np.array(key, dtype='uint8')).tolist()
            for fn, attacks in afns:
                last = fn.startswith('Last') or fn.endswith('LastRounds')
                if q and ki > 0:
                    if fn not in ('LastSubBytes', 'FirstSubBytes'):
                        continue
                    attacks = ['CPA'] if fn == 'LastSubBytes' else ['SNR']
                kwv = ark[ki]['last' if last else 'first']
                words = sorted(rng.sample(range(16), 2), reverse=(run_i % 2 == 0))        # ascending and descending selections
                guesses = sorted(set([kwv[w] for w in words]) | set(rng.sample(range(256), 30)))
                inputs = cts if last else pts
                for attack in attacks:
                    model = 'bit0' if attack == 'DPA' else 'hw'
                    symmetric = not (attack == 'CPA' and 'AddRoundKey' in fn)
                    run_i += 1
                    aplan.append((config(fn, inputs, kwv, words, guesses, model, symmetric, chk.seed % 1000 + run_i), fn, attack, key, inputs, guesses, words, [N, (N + 2) // 3, 7][run_i % 3], kwv))
        for traces, (cfg_, fn, attack, key, inputs, guesses, words, bs, kwv) in zip(simulate_all(chk, 'PipelineAES', [p[0] for p in aplan], f'MC+GEN:AES simulated leakage ({len(aplan)} configurations)'), aplan):
            if traces is None:
                skipped += 1
                continue
            # every second run also asks for convergence traces (results computed several times along the way): the final ranking is the same statement
            nrun = getattr(chk, '_c17_runs', 0) + 1
            chk._c17_runs = nrun
            a, sfw, scores, wl = attack_once('aes', fn, attack, key, inputs, traces, guesses, words, bs, kwv, cstep=(N // 4 if nrun % 2 else None))
            judge(chk, 'aes', fn, attack, key, sfw, scores, wl, guesses, kwv, bs, words)
        # ---------------- DES
        dkeys = [[rng.randint(0, 255) for _ in range(8)] for _ in range(1 if q else 3)]
        drk = spec_round_keys_des(chk, dkeys)
        ND = 512
        dpts = [[rng.randint(0, 255) for _ in range(8)] for _ in range(ND)]
        dfns = [('FirstSboxes', ['CPA', 'DPA', 'ANOVA', 'SNR'] if q else ['CPA', 'DPA', 'ANOVA', 'NICV', 'SNR', 'MIA']), ('LastSboxes', ['CPA', 'NICV'] if q else ['CPA', 'DPA', 'ANOVA', 'NICV', 'SNR', 'MIA']),
                ('FeistelRFirstRounds', ['CPA']), ('DeltaRLastRounds', ['CPA', 'MIA'] if q else ['CPA', 'DPA', 'ANOVA', 'MIA']), ('FeistelRLastRounds', ['CPA']), ('DeltaRFirstRounds', ['CPA'])]
        for ki, key in enumerate(dkeys):
            dcts = scared.des.encrypt(np.array(dpts, dtype='uint8'), np.array(key, dtype='uint8')).tolist()
            for fn, attacks in dfns:
                last = fn.startswith('Last') or fn.endswith('LastRounds')
                kwv = drk[ki]['last' if last else 'first']
                words = sorted(rng.sample(range(8), 2), reverse=(run_i % 2 == 0))
                guesses = list(range(64))
                inputs = dcts if last else dpts
                for attack in attacks:
                    model = 'bit0' if attack == 'DPA' else 'hw'
                    run_i += 1
                    dplan.append((config(fn, inputs, kwv, words, guesses, model, True, chk.seed % 1000 + run_i), fn, attack, key, inputs, guesses, words, [ND, (ND + 2) // 3, 50][run_i % 3], kwv))
        for traces, (cfg_, fn, attack, key, inputs, guesses, words, bs, kwv) in zip(simulate_all(chk, 'PipelineDES', [p[0] for p in dplan], f'MC+GEN:DES simulated leakage ({len(dplan)} configurations)'), dplan):
            if traces is None:
                skipped += 1
                continue
            nrun = getattr(chk, '_c17_runs', 0) + 1
            chk._c17_runs = nrun
            a, sfw, scores, wl = attack_once('des', fn, attack, key, inputs, traces, guesses, words, bs, kwv, cstep=(ND // 4 if nrun % 2 else None))
            judge(chk, 'des', fn, attack, key, sfw, scores, wl, guesses, kwv, bs, words)
        chk.extra['non_identifiable_combinations_skipped'] = skipped
    finally:
        scared.Container._BATCH_SIZE = old


def judge(chk, cipher, fn, attack, key, sfw, scores, wl, guesses, kwv, bs, words):
    # the selection-function object was (and may again be) used for another campaign, with another key: the expected key is a function of the key given
    sfw.compute_expected_key(key=np.array([(37 * b + 11) % 256 for b in key], dtype='uint8'))
    ek = np.asarray(sfw.compute_expected_key(key=np.array(key, dtype='uint8'))).reshape(-1)
    for col, w in enumerate(wl):
        chk.count((cipher, fn, attack, tuple(key), w, bs), nontrivial=True)
        chk.traces_validated += 1
        sc = np.asarray(scores[:, col], dtype='float64')
        want_g = kwv[w]
        ctx = {'property': 'C17', 'cipher': cipher, 'function': fn, 'attack': attack, 'key': key, 'word': w, 'batch_size': bs, 'guesses': guesses, 'scores': sc.tolist(), 'expected_guess': want_g}
        if int(ek[w]) != want_g:
            chk.violation(f'{cipher}.{fn}:expected-key function returns the key word the leakage was simulated with', dict(ctx, expected_key_function=int(ek[w])), f'{cipher}.{fn}: compute_expected_key[{w}] = {int(ek[w])}, specification {want_g}')
            continue
        if np.all(np.isnan(sc)):
            chk.violation(f'{attack}:scores are defined', ctx, f'{cipher}.{fn}/{attack}: all scores NaN')
            continue
        best = int(np.nanargmax(sc))
        top = np.sort(sc[~np.isnan(sc)])[::-1]
        unique = len(top) < 2 or top[0] > top[1]
        if guesses[best] != want_g or not unique:
            chk.violation(f'{attack}:the highest score is at the guess returned by the expected-key function', dict(ctx, best_guess=guesses[best], unique=bool(unique)),
                          f'{cipher}.{fn}/{attack} word {w} batch {bs}: best guess {guesses[best]} (unique={unique}), expected {want_g}')
        else:
            m = chk.extra.setdefault('smallest_margin_ratio', None)
            ratio = float(top[0] / top[1]) if len(top) > 1 and top[1] > 0 else None
            if ratio and (m is None or ratio < m):
                chk.extra['smallest_margin_ratio'] = ratio
    if len(chk.samples) < 3:
        chk.sample({'cipher': cipher, 'function': fn, 'attack': attack, 'batch_size': bs, 'attacked_words': wl, 'true_key_words': [kwv[w] for w in wl]})


def replay(chk, path):
    rp = json.load(open(path))
    print({k: rp[k] for k in ('cipher', 'function', 'attack', 'word', 'batch_size', 'expected_guess') if k in rp})
    print('re-run ./check C17 (trace matrices are regenerated by TLC from the seed)')
    return 0
