"""C03 - CPA (standard and alternative) is the Pearson coefficient, DPA the difference of class means; layout; NaN rules.

(M) specs/StatsEnum.tla enumerates EVERY multiset of up to MaxN observations over a small grid; in every state TLC
    checks that two independent formulations of Pearson agree, |r| <= 1, that the formulas the code evaluates on its
    accumulators (K: CpaK, CpaAltK, DpaK, in exact rationals with IEEE division and the inf->nan step) equal the
    definition (P), and that the result is NaN exactly for a constant column / empty bit class and never infinite.
(G) every enumerated state is replayed on CPADistinguisher, CPAAlternativeDistinguisher and DPADistinguisher (both
    precisions, cycling dtypes incl. negative and fractional presentations); specs/StatsCases.tla supplies the
    expected results for multi-sample / multi-dimensional-word datasets in the documented (word dims..., sample) layout.
"""
import json
import random

import numpy as np

from .. import stats as st
from .. import disthist as dh

PRES = [('uint8', 0, 1.0), ('int16', -2, 1.0), ('float32', -2, 0.25), ('float64', 0, 0.5), ('int8', -3, 1.0), ('uint16', 0, 1.0)]


def run_obj(cls, precision, t, d, split=0):
    """split: 0 = one update; k > 0 = two updates, the first with all but the last k traces (so the second is the shorter one when k is small);
    the statistic is a function of the whole set, whatever the batches were"""
    import scared
    o = getattr(scared, cls)(precision=precision)
    if split and 0 < split < len(t):
        o.update(t[:-split], d[:-split])
        # a batch the object refuses (another trace length) between two accepted ones is not part of "all processed traces"
        try:
            o.update(np.concatenate([t[-split:], t[-split:, :1]], axis=1), d[-split:])
            raise AssertionError('harness: a batch with another trace length was accepted')
        except AssertionError:
            raise
        except Exception:       # noqa - the refusal itself
            pass
        o.update(t[-split:], d[-split:])
    else:
        o.update(t, d)
    first = np.asarray(o.compute())
    again = np.asarray(o.compute())              # asking again must give the same statistic (no state consumed by compute)
    if first.shape != again.shape or not np.array_equal(first, again, equal_nan=True):
        return again            # the second answer is judged against the definition (the first one is by the callers of earlier runs)
    return first


def check_entry(chk, what, cls, precision, got, want, mag, ctx):
    chk.count((what, cls, precision, ctx.get('key')), nontrivial=True)
    if not st.agree(got, want, mag, precision):
        clause = ('undefined statistic is NaN (never infinite or finite)' if want is None else
                  'result equals its definition (Pearson coefficient / difference of class means)')
        chk.violation(f'{cls}:{clause}', dict(ctx, property='C03', cls=cls, precision=precision, got=float(got),
                                             expected=None if want is None else float(want), clause=clause),
                      f'{cls}/{precision}: got {got}, expected {"NaN" if want is None else float(want)} ({what})')


def run(chk):
    tier = chk.tier
    maxn = 4 if tier == 'quick' else 5
    chk.rule = ('TLC enumerates every multiset of 2..MaxN observations <<x, v>> over x in 0..3, v in 0..3 (Pearson) / 0..1 (DPA); one evaluation = '
                'one result entry of one real distinguisher (class x precision x dtype presentation) compared with the value TLC derived from the '
                'definition; all are non-trivial (>= 2 traces); distinct = distinct (dataset, class, precision); plus driver-proposed '
                'multi-word / multi-sample datasets whose expected layout comes from specs/StatsCases.tla')
    chk.assumptions += ['integer-valued samples (also presented shifted / scaled by 1/4, 1/2 in float dtypes): Pearson and difference of means are invariant / '
                        'equivariant under these presentations', 'sqrt evaluated outside TLC on the exact certificate <<num, dx, dy>>',
                        'tolerance = 64 eps x (|value| + cancellation magnitude computed from the data)']
    # (M)
    st.enum_run(chk, 'pearson', maxn, 2, range(4), range(4), [0], False, ['PearsonLemmas', 'PearsonNaNRule'], 'MC:pearson')
    st.enum_run(chk, 'dom', maxn + 1, 2, range(4), range(2), [0], False, ['DomLemmas'], 'MC:dom')
    # (G) exhaustive single-pair states
    r = st.enum_run(chk, 'pearson', maxn, 2, range(4), range(4), [0], True, [], 'GEN:pearson')
    for i, e in enumerate(r.emits()):
        ps = e['ps']
        dt, sh, sc = PRES[i % len(PRES)]
        ddt, dsh = [('uint8', 0), ('int16', -1), ('uint16', 0), ('int32', -2)][(i // len(PRES)) % 4]
        t = ((np.array([[p[0]] for p in ps], dtype='float64') + sh) * sc).astype(dt)
        d = (np.array([[p[1]] for p in ps], dtype='int64') + dsh).astype(ddt)
        want, mag = st.pearson_expect(e['cert'], ps)
        for cls in ('CPADistinguisher', 'CPAAlternativeDistinguisher'):
            for prec in ('float32', 'float64'):
                got = run_obj(cls, prec, t, d, split=(i // 2) % 3)
                if got.shape != (1, 1):
                    chk.violation(f'{cls}:result layout', {'property': 'C03', 'ps': ps, 'shape': got.shape}, f'{cls}: shape {got.shape}')
                    continue
                check_entry(chk, 'Pearson coefficient', cls, prec, got[0, 0], want, mag, {'ps': ps, 'trace_dtype': dt, 'data_dtype': ddt, 'key': i, 'split': (i // 2) % 3})
            if i % 8 == 1:
                # byte-typed traces AND data near the top of their range, presented 401 times in one batch (cross sums beyond 2^24): Pearson is
                # invariant under both shifts and under replication; float64 is asked to be float64 whatever the input types
                t3 = np.tile((np.array([[p[0]] for p in ps], dtype='int64') + 250).astype('uint8'), (401, 1))
                d3 = np.tile((np.array([[p[1]] for p in ps], dtype='int64') + 250).astype('uint8'), (401, 1))
                want3, mag3 = st.pearson_expect(e['cert'], [(p[0] + 250, p[1] + 250) for p in ps])
                got = run_obj(cls, 'float64', t3, d3)
                check_entry(chk, 'Pearson coefficient (bytes near 255, 401 repetitions)', cls, 'float64', got[0, 0], want3, mag3, {'ps': ps, 'trace_dtype': 'uint8', 'offset': 250, 'data_offset': 250, 'repeated': 401, 'data_dtype': 'uint8', 'key': ('hi8', i)})
            if i % 4 == 0:
                # the same observations riding on a large offset with a small swing (ADC codes around 12000): Pearson is shift-invariant; in
                # float64 every sum is still an exact integer, so the definition is reached to the stated envelope (float32 is not asked: its
                # accumulators cannot hold these squares)
                t2 = (np.array([[p[0]] for p in ps], dtype='int64') + 12000).astype('int16')
                want2, mag2 = st.pearson_expect(e['cert'], [(p[0] + 12000, p[1]) for p in ps])
                got = run_obj(cls, 'float64', t2, d)
                check_entry(chk, 'Pearson coefficient (large offset)', cls, 'float64', got[0, 0], want2, mag2, {'ps': ps, 'trace_dtype': 'int16', 'offset': 12000, 'data_dtype': ddt, 'key': ('off', i)})
        if i % 997 == 0:
            chk.sample({'observations': ps, 'pearson_certificate_num_dx_dy': e['cert']})
        chk.traces_validated += 1
    r = st.enum_run(chk, 'dom', maxn + 1, 2, range(4), range(2), [0], True, [], 'GEN:dom')
    for i, e in enumerate(r.emits()):
        ps = e['ps']
        dt, sh, sc = PRES[i % len(PRES)]
        t = ((np.array([[p[0]] for p in ps], dtype='float64') + sh) * sc).astype(dt)
        d = np.array([[p[1]] for p in ps], dtype='uint8')
        want, mag = st.dom_expect(e['cert'], sc)
        mag += abs(sh) * sc * 2
        for prec in ('float32', 'float64'):
            got = run_obj('DPADistinguisher', prec, t, d, split=(i // 2) % 3)
            check_entry(chk, 'difference of class means', 'DPADistinguisher', prec, got[0, 0], want, mag, {'ps': ps, 'trace_dtype': dt, 'key': i})
        if i % 61 == 0 and want is not None:
            # the same observations presented K times (more than 2^17 traces): every class mean is unchanged, so is their difference
            K = 140000 // len(ps) + 1
            for prec in ('float32', 'float64'):
                got = run_obj('DPADistinguisher', prec, np.tile(t, (K, 1)), np.tile(d, (K, 1)))
                check_entry(chk, f'difference of class means ({K * len(ps)} traces)', 'DPADistinguisher', prec, got[0, 0], want, mag, {'ps': ps, 'trace_dtype': dt, 'repeated': K, 'key': ('rep', i)})
        if i % 397 == 0:
            chk.sample({'observations': ps, 'dom_certificate_sum1_n1_sum0_n0': e['cert']})
        chk.traces_validated += 1
    layouts(chk)


def layouts(chk):
    """multi-sample, multi-dimensional word datasets: every entry in the documented layout; constant columns inside."""
    rng = random.Random(chk.seed)
    ncase = 12 if chk.tier == 'quick' else 80
    shapes = [(1, [3]), (3, [2, 2]), (2, [2, 3]), (3, [1]), (2, [2, 1, 2])]
    # data dtypes with values near their extremes (squares / products must not wrap in the data's own integer type)
    wide = [('uint8', 0, 255), ('int8', -128, 127), ('uint16', 0, 1000), ('int16', -1000, 1000), ('uint8', 0, 8)]
    cases, ddts = [], []
    for i in range(ncase):
        S, wshape = shapes[i % len(shapes)]
        W = int(np.prod(wshape))
        kind = 'cpa' if i % 3 else 'dpa'
        c = dh.base_cfg(kind, S=S, W=W, wshape=wshape)
        n = rng.randint(2, 9)
        ddt, dlo, dhi = wide[i % len(wide)]
        rows = dh.random_rows(rng, c, n, tmax=15, tmin=0, dvals=[0, 1] if kind == 'dpa' else [rng.randint(dlo, dhi) for _ in range(6)] + [dlo, dhi])
        ddts.append('uint8' if kind == 'dpa' else ddt)
        if i % 4 == 1:       # a constant sample column and a constant word
            for rr in rows:
                rr['t'][0] = 7
                rr['d'][-1] = 1
        cases.append({'c': c, 'rows': rows})
    # more than 256 words (not a multiple of 256), and constant trace samples against many non-constant words for n = 3, 5, 6, 7, 9, 10
    c = dh.base_cfg('cpa', S=1, W=300, wshape=[3, 100])
    cases.append({'c': c, 'rows': dh.random_rows(rng, c, 4, tmax=15, dvals=list(range(0, 200, 7)))})
    ddts.append('uint8')
    for n in (3, 5, 6, 7, 9, 10):
        c = dh.base_cfg('cpa', S=2, W=6, wshape=[6])
        rows = dh.random_rows(rng, c, n, tmax=15, dvals=list(range(0, 256, 5)))
        for rr in rows:
            rr['t'][0] = 11
        cases.append({'c': c, 'rows': rows})
        ddts.append('uint8')
    res = st.cases_run(chk, 'StatsCases', cases, ['KMatchesP'], 'CASES:layout')
    for ci, (case, rs) in enumerate(zip(cases, res)):
        c, rows = case['c'], case['rows']
        dt, sh, sc = PRES[ci % len(PRES)]
        t = ((np.array([r['t'] for r in rows], dtype='float64') + sh) * sc).astype(dt)
        d = np.array([r['d'] for r in rows], dtype=ddts[ci]).reshape((len(rows),) + tuple(c['wshape']))
        if ci % 2:         # the same values in Fortran order (transposed views, fancy-indexed selections): the layout is a function of the values' positions, not of the memory order
            d, t = np.asfortranarray(d), np.asfortranarray(t)
        classes = ['CPADistinguisher', 'CPAAlternativeDistinguisher'] if c['kind'] == 'cpa' else ['DPADistinguisher']
        for cls in classes:
            for prec in ('float32', 'float64'):
                got = run_obj(cls, prec, t, d)
                want_shape = tuple(c['wshape']) + (c['S'],)
                if got.shape != want_shape:
                    chk.violation(f'{cls}:result keeps the (word dims, sample) layout', {'property': 'C03', 'case': case, 'shape': list(got.shape), 'expected_shape': list(want_shape)},
                                  f'{cls}: result shape {got.shape} != {want_shape}')
                    continue
                flat = got.reshape(-1)
                for j, cert in enumerate(rs['cert']):
                    w, s = j // c['S'], j % c['S']
                    ps = [(r['t'][s], r['d'][w]) for r in rows]
                    if c['kind'] == 'cpa':
                        want, mag = st.pearson_expect(cert, ps)
                    else:
                        want, mag = st.dom_expect(cert, sc)
                        mag += abs(sh) * sc * 2
                    check_entry(chk, f'entry (word {w}, sample {s})', cls, prec, flat[j], want, mag, {'case': case, 'trace_dtype': dt, 'entry': [w, s], 'key': ('L', ci, j)})
        chk.traces_validated += 1
    chk.sample({'layout_case': {'S': cases[1]['c']['S'], 'wshape': cases[1]['c']['wshape'], 'rows': cases[1]['rows'][:3]}})


def replay(chk, path):
    rp = json.load(open(path))
    cls, prec = rp['cls'], rp['precision']
    if 'ps' in rp:
        ps = rp['ps']
        t = np.tile((np.array([[p[0]] for p in ps]) + rp.get('offset', 0)).astype(rp.get('trace_dtype', 'int16')), (rp.get('repeated', 1), 1))
        d = np.tile((np.array([[p[1]] for p in ps]) + rp.get('data_offset', 0)).astype('uint8'), (rp.get('repeated', 1), 1))
    else:
        c, rows = rp['case']['c'], rp['case']['rows']
        t = np.array([r['t'] for r in rows]).astype('int16')
        d = np.array([r['d'] for r in rows], dtype='uint8').reshape((len(rows),) + tuple(c['wshape']))
    got = run_obj(cls, prec, t, d, split=rp.get('split', 0))
    print('result now:', got.tolist(), 'expected at record time:', rp.get('expected'))
    e = rp.get('entry')
    g = got.reshape(-1)[e[0] * got.shape[-1] + e[1]] if e else got.reshape(-1)[0]
    exp = rp.get('expected')
    ok = (np.isnan(g) if exp is None else (not np.isnan(g) and abs(g - exp) <= 1e-3 * (1 + abs(exp))))
    if not ok:
        print(f'VIOLATION property=C03 replay={path}')
        return 1
    return 0
