"""C18 - preprocesses compute their definition row by row, without integer wrap-around.

(M) specs/Preprocess.tla + PreprocessCases.tla: the documented pair lists (all i <= j of one frame, within a distance, frame x
    frame, point to point) have no duplicate and the documented length for every configuration offered; values are dyadic
    numbers m * 2^e, so expected results beyond 32 / 64 bits are exact by construction; Xcorr is stated by its time-domain
    definition for every length, the other time-frequency combinations through the DFT over the Gaussian integers (lengths 1, 2, 4).
(G) every configuration (frame forms: Ellipsis, slices with/without start and step, index lists, arrays, single points; frame_2;
    mode; distance 1..L; operator) x dtypes at their extremes (0/255, -128/127, int16 bounds, +-3*2^15 / 2^16 / 2^31 in
    int32 / uint32 / int64) is executed: output dtype is floating (>= float32), every output row equals the exact row rounded to
    that dtype; the same row embedded in a different batch gives the same output row (row-wise), except documented batch centring;
    square / ToPower / CenterOn / center / standardize / StandardizeOn / serialize_bit / fft_modulus and the six time-frequency combinations.
"""
import itertools
import json
import math
import os
import random
from fractions import Fraction

import numpy as np

from .. import disthist as dh
from .. import stats as st
from .. import tlc

T = 6       # trace length


def frame_forms():
    """(label, python frame object, index list)"""
    return [('ellipsis', ..., list(range(T))), ('slice', slice(1, 4), [1, 2, 3]), ('slice0', slice(None, 3), [0, 1, 2]), ('step', slice(0, 6, 2), [0, 2, 4]),
            ('list', [0, 2, 3], [0, 2, 3]), ('list-unordered', [4, 1], [4, 1]), ('array', np.array([5, 1, 2]), [5, 1, 2]), ('point', 2, [2]), ('full-slice', slice(0, 6), list(range(6))),
            ('list-contiguous-descending', [3, 2, 1, 0], [3, 2, 1, 0]), ('list-contiguous-unordered', [3, 5, 4], [3, 5, 4]),
            ('range-negative', range(-4, 0), [T - 4, T - 3, T - 2, T - 1]), ('range-descending', range(3, -1, -1), [3, 2, 1, 0]), ('slice-negative', slice(-4, -1), [T - 4, T - 3, T - 2])]          # (an open-ended slice is refused at construction: not offered)


# value palettes per dtype: python ints given as dyadics (m, e)
def dy(v):
    if v == 0:
        return [0, 0]
    e = 0
    while v % 2 == 0 and e < 62:
        v //= 2
        e += 1
    return [v, e]


PALETTES = {
    'uint8': [0, 255, 1, 128, 254, 17], 'int8': [-128, 127, 0, -1, 64, 5], 'int16': [-32768, 32767, 0, 1, -255, 256], 'uint16': [0, 65534, 256, 3, 4096, 65280],
    'int32': [3 * 2 ** 15, -3 * 2 ** 15, 2 ** 16, 100000 // 32 * 32, -2 ** 30, 7], 'uint32': [2 ** 16, 3 * 2 ** 15, 2 ** 31, 0, 5, 2 ** 20],
    'int64': [2 ** 31, -3 * 2 ** 31, 2 ** 20, 2 ** 33, -5, 9], 'float32': [0, 255, -3, 1024, 7, 2], 'float64': [-32768, 32767, 3 * 2 ** 15, 0, 5, 2 ** 31],
}


def exact(d):
    return d[0] * (2 ** d[1]) if d[1] >= 0 else Fraction(d[0], 2 ** (-d[1]))


# palettes for differences: all values share one exponent (m * 2^e with small m), so aligning dyadics stays small
DIFFPAL = {'int32': (29, [3, -3, 2, -2, 0, 1]), 'uint32': (29, [7, 0, 4, 1, 6, 2]), 'int64': (61, [3, -3, 2, -2, 0, 1]), 'float64': (40, [3, -3, 5, 0, 1, -7])}


def rows_for(rng, dtype, n, op=None):
    """returns (python-int rows, dyadic rows)"""
    if op in ('difference', 'absdiff') and dtype in DIFFPAL:
        e, ms = DIFFPAL[dtype]
        mr = [[rng.choice(ms) for _ in range(T)] for _ in range(n)]
        return [[m * 2 ** e for m in r] for r in mr], [[[m, e] for m in r] for r in mr]
    pal = PALETTES[dtype]
    rows = [[rng.choice(pal) for _ in range(T)] for _ in range(n)]
    return rows, [[dy(v) for v in r] for r in rows]


POWE = {'uint8': 4, 'int8': 3, 'int16': 11, 'uint16': 12, 'int32': 27, 'uint32': 28, 'int64': 59, 'float32': 5, 'float64': 30}


def power_rows(rng, dtype, n):
    """values m * 2^e with |m| <= 15 so that the 4th power of the mantissa stays small inside TLC"""
    e = POWE[dtype]
    ms = [0, 1, 3, 5, 15, 7] if dtype.startswith('u') else [0, 1, -3, 5, -7, 3]
    return [[rng.choice(ms) * 2 ** rng.choice([0, e]) for _ in range(T)] for _ in range(n)]


def make_pre(cfgp):
    import scared
    ho = scared.preprocesses.high_order
    cls = {'product': ho.Product, 'difference': ho.Difference, 'absdiff': ho.AbsoluteDifference, 'centered_product': ho.CenteredProduct}[cfgp['op']]
    kw = {'frame_1': cfgp['f1_obj']}
    if cfgp['f2_obj'] is not None:
        kw['frame_2'] = cfgp['f2_obj']
    if cfgp['mode'] == 'same':
        kw['mode'] = 'same'
    if cfgp['mode'] == 'dist':
        kw['distance'] = cfgp['d']
    if cfgp['op'] == 'centered_product' and cfgp.get('mean_obj') is not None:
        kw['mean'] = cfgp['mean_obj']
    if cfgp.get('precision'):
        kw['precision'] = cfgp['precision']
    return cls(**kw)


def check_rows(chk, sig, got, want_rows, ctx, text):
    """got: ndarray (n, K); want_rows: list of rows of exact python numbers"""
    got = np.asarray(got)
    if got.dtype.kind != 'f' or got.dtype.itemsize < 4:
        chk.violation(f'{sig}:integer traces are promoted to a floating type (at least float32) before arithmetic', dict(ctx, property='C18', result_dtype=str(got.dtype)),
                      f'{text}: result dtype {got.dtype}')
        return False
    want = np.array([[got.dtype.type(x) if isinstance(x, int) else got.dtype.type(float(x)) for x in row] for row in want_rows], dtype=got.dtype)
    if got.shape != want.shape or not np.array_equal(got, want):
        chk.violation(f'{sig}:output equals the operation applied to the documented pairs in the documented order, without wrap-around', dict(ctx, property='C18', got=got.tolist(), expected=want.tolist()),
                      f'{text}: got {got.tolist()[:2]} expected {want.tolist()[:2]}')
        return False
    return True


def combos(chk, rng):
    frames = frame_forms()
    cases, metas = [], []
    ops = ['product', 'difference', 'absdiff', 'centered_product']
    dts = list(PALETTES)
    k = 0
    for (l1, o1, i1) in frames:
        confs = [('full', None, None, 0)]
        confs += [('dist', None, None, d) for d in range(1, len(i1) + 3)]            # also distances larger than the frame
        for (l2, o2, i2) in frames:
            confs.append(('full', o2, i2, 0))
            if len(i2) == len(i1) and o1 is not ... and o2 is not ...:      # point-to-point needs two explicit frames (Ellipsis is refused at construction)
                confs.append(('same', o2, i2, 0))
        for mode, o2, i2, d in confs:
            same2 = mode == 'same' and o2 is not None and list(i2) != list(i1)        # point-to-point over two DIFFERENT frames: always with a centred product on a given mean
            for op in (ops if chk.tier != 'quick' else sorted({ops[k % 4], ops[(k + 1) % 4]} | ({'centered_product'} if same2 else set()))):
                k += 1
                dt = dts[k % len(dts)]
                if same2 and op == 'centered_product':
                    dt = ['uint8', 'int16', 'float32'][k % 3]
                rows, drows = rows_for(rng, dt, 3, op)
                mean = None
                if op == 'centered_product':
                    if dt in ('uint8', 'int8', 'int16', 'float32') and (k % 2 or same2):
                        mean = [rng.randint(-3, 3) for _ in range(T)] if k % 4 == 1 else [rng.randint(100, 120) for _ in range(T)]
                    else:
                        continue            # batch-mean centring is checked in first_order (documented batch dependence)
                cfg = {'op': op, 'mode': mode, 'f1': i1, 'f2': i2 or [], 'd': d, 'mean': [dy(m) for m in mean] if mean else []}
                cases.append({'kind': 'comb', 'cfg': cfg, 'rows': drows})
                metas.append({'op': op, 'mode': mode, 'f1_obj': o1, 'f2_obj': o2, 'd': d, 'mean_obj': (np.array(mean, dtype='float64') if (k % 4 == 1 or dt not in ('uint8', 'int16')) else np.array(mean, dtype=dt)) if mean else None, 'dtype': dt, 'rows': rows,
                              'label': f'{op} frame_1={l1} frame_2={"-" if o2 is None else i2} mode={mode} d={d} {dt}', 'precision': 'float64' if k % 5 == 0 else None})
    res = run_cases(chk, cases, 'CASES:combinations')
    built = [make_pre(m) for m in metas]            # every preprocess object exists before any is used (objects of one session are independent of each other)
    for ci, (c, m, r) in enumerate(zip(cases, metas, res)):
        pre = built[ci]
        traces = np.array(m['rows'], dtype=m['dtype'])
        got = pre(traces)
        want = [[exact(x) for x in row] for row in r['rows']]
        ctx = {'part': 'comb', 'label': m['label'], 'traces': m['rows'], 'dtype': m['dtype'], 'cfg': c['cfg']}
        chk.count(('comb', ci), nontrivial=len(want[0]) >= 2)
        chk.traces_validated += 1
        ok = check_rows(chk, m['op'], got, want, ctx, m['label'])
        if not np.array_equal(traces, np.array(m['rows'], dtype=m['dtype'])):
            chk.violation(f'{m["op"]}:the traces handed to a preprocess are left as they were given', dict(ctx, property='C18'), f'{m["label"]}: the input batch was modified')
            traces = np.array(m['rows'], dtype=m['dtype'])
        if ok and c['cfg']['mode'] in ('full', 'dist') and m['f1_obj'] is ... and m['f2_obj'] is None:
            # the same object on traces of another width (whole-trace frame): a preprocess is a function of its configuration and of the batch it is given
            wide = np.concatenate([traces, traces[:, :2]], axis=1)
            try:
                again_w, fresh_w = np.asarray(pre(wide)), np.asarray(make_pre(m)(wide))
                if again_w.shape != fresh_w.shape or not np.array_equal(again_w, fresh_w, equal_nan=True):
                    chk.violation(f'{m["op"]}:output equals the operation applied to the documented pairs in the documented order, without wrap-around (object reused on wider traces)',
                                  dict(ctx, property='C18', got_shape=list(again_w.shape), fresh_shape=list(fresh_w.shape)), f'{m["label"]}: reused on traces of {wide.shape[1]} samples after {traces.shape[1]}: shape {again_w.shape}, a fresh object gives {fresh_w.shape}')
            except Exception as ex:        # noqa - the fresh object accepts these traces, so must the reused one
                chk.violation(f'{m["op"]}:output equals the operation applied to the documented pairs in the documented order, without wrap-around (object reused on wider traces)',
                              dict(ctx, property='C18', error=repr(ex)[:200]), f'{m["label"]}: reused on wider traces: {ex!r}'[:240])
        if ok:
            # row r of the output depends only on row r of the input: the middle row alone / in another batch
            keep = np.array(got, copy=True)
            again = pre(traces[::-1].copy())                     # a second batch of the same shape and dtype
            if not np.array_equal(np.asarray(got), keep) or not np.array_equal(np.asarray(again)[::-1], keep):
                chk.violation(f'{m["op"]}:the output of a call is not altered by later calls (row r depends on row r of ITS batch only)', dict(ctx, property='C18'), f'{m["label"]}: an earlier output changed after a later call on a batch of the same shape')
            alone = pre(traces[1:2])
            other = pre(np.concatenate([traces[2:3], traces[1:2], traces[0:1], traces[0:1]]))
            if not np.array_equal(alone[0], np.asarray(got)[1]) or not np.array_equal(other[1], np.asarray(got)[1]):
                chk.violation(f'{m["op"]}:row r of the output depends only on row r of the input', dict(ctx, property='C18'), f'{m["label"]}: output row changes with the batch composition')
    chk.sample({'combination': metas[3]['label'], 'expected_row0_dyadic': res[3]['rows'][0][:6]})


LONG = {}


def run_cases(chk, cases, label):
    path = dh.write_json(cases)
    try:
        r = tlc.run('PreprocessCases', cfg_text=tlc.cfg(invariants=['PairListLemma', 'XcorrLemma', 'Emit']), env={'CASES': path}, workers=1)
    finally:
        os.unlink(path)
    chk.add_tlc(label, r)
    if r.violated:
        raise tlc.TLCError(f'PreprocessCases violates {r.violated}')
    out = {e['case'] - 1: e['res'] for e in r.emits()}
    return [out[i] for i in range(len(cases))]


def first_order(chk, rng):
    import scared
    pp = scared.preprocesses
    cases, metas = [], []
    for dt in PALETTES:
        for k in (1, 2, 3, 4):
            rows = power_rows(rng, dt, 2)
            cases.append({'kind': 'power', 'k': k, 'rows': [[dy(v) for v in r] for r in rows]})
            metas.append(('power', dt, k, rows))
        rows, _ = rows_for(rng, dt, 2)
        cases.append({'kind': 'power', 'k': 2, 'rows': [[dy(v) for v in r] for r in rows]})
        metas.append(('square', dt, 2, rows))
    for dt in ('uint8', 'int8', 'int16', 'float32', 'float64'):
        rows = [[rng.randint(0, 12) - (4 if dt != 'uint8' else 0) for _ in range(4)] for _ in range(rng.randint(2, 5))]
        cases.append({'kind': 'center', 'rows': [[dy(v) if v else [0, 0] for v in r] for r in rows]})
        cases[-1]['rows'] = [[[v, 0] for v in r] for r in rows]
        metas.append(('center', dt, 0, rows))
    rows = [[rng.randint(0, 255) for _ in range(3)] for _ in range(3)]
    cases.append({'kind': 'bits', 'rows': [[[v, 0] for v in r] for r in rows]})
    metas.append(('bits', 'uint8', 0, rows))
    res = run_cases(chk, cases, 'CASES:first-order')
    for ci, (c, m, r) in enumerate(zip(cases, metas, res)):
        kind, dt, k, rows = m
        traces = np.array(rows, dtype=dt)
        ctx = {'part': 'first', 'kind': kind, 'dtype': dt, 'k': k, 'traces': rows}
        chk.count(('first', ci), nontrivial=True)
        chk.traces_validated += 1
        if kind in ('power', 'square'):
            want = [[exact(x) for x in row] for row in r['rows']]
            big = max(abs(x) for row in want for x in row)
            got = pp.square(traces) if kind == 'square' else pp.ToPower(k)(traces)
            if big >= 2 ** 53:
                # not exactly representable in any float: compare relatively
                g = np.asarray(got, dtype='float64')
                w = np.array([[float(x) for x in row] for row in want])
                if got.dtype.kind != 'f' or not np.allclose(g, w, rtol=1e-6):
                    chk.violation(f'{kind}:power without wrap-around', dict(ctx, property='C18', got=g.tolist(), expected=w.tolist(), result_dtype=str(got.dtype)), f'{kind}({dt}) k={k}')
            else:
                check_rows(chk, kind if kind == 'square' else 'ToPower', got, want, ctx, f'{kind}(k={k}) on {dt}')
        elif kind == 'center':
            want = np.array([[float(Fraction(x[0], x[1])) for x in row] for row in r['rows']])
            got = np.asarray(pp.center(traces))
            # ONE long-lived object per kind serves every batch of the run (as a preprocess placed in a Container does): each batch is centred on ITS mean
            got2 = np.asarray(LONG.setdefault('CenterOn', pp.CenterOn())(traces))
            gotp = np.asarray(LONG.setdefault('CenteredProduct', scared.preprocesses.high_order.CenteredProduct(frame_1=[0], frame_2=[1]))(traces))
            wantp = (want[:, 0] * want[:, 1]).reshape(-1, 1)
            if gotp.shape != wantp.shape or not np.allclose(gotp, wantp, rtol=1e-5, atol=1e-5):
                chk.violation('centered_product:centres every batch on its own mean', dict(ctx, property='C18', got=gotp.tolist(), expected=wantp.tolist()), f'CenteredProduct (batch mean) on {dt}, object reused across batches')
            if got.dtype.kind != 'f' or not np.allclose(got, want, rtol=1e-6, atol=1e-6) or not np.allclose(got2, want, rtol=1e-6, atol=1e-6):
                chk.violation('center:subtracts the batch mean of every sample', dict(ctx, property='C18', got=got.tolist(), expected=want.tolist()), f'center on {dt}')
            n = len(rows)
            std = np.array([math.sqrt(v) / n for v in r['varn2']])
            if np.all(std > 0):
                gs = np.asarray(pp.standardize(traces))
                gs2 = np.asarray(pp.StandardizeOn()(traces))
                if not np.allclose(gs, want / std, rtol=1e-5, atol=1e-6) or not np.allclose(gs2, want / std, rtol=1e-5, atol=1e-6):
                    chk.violation('standardize:divides the centred traces by the batch standard deviation', dict(ctx, property='C18', got=gs.tolist(), expected=(want / std).tolist()), f'standardize on {dt}')
            mean = np.array([1.0, -2.0, 0.5, 3.0])
            g3 = np.asarray(pp.CenterOn(mean=mean)(traces))
            if not np.array_equal(g3.astype('float64'), traces.astype('float64') - mean):
                chk.violation('CenterOn:subtracts the given mean', dict(ctx, property='C18'), f'CenterOn(mean) on {dt}')
            if np.dtype(dt).kind in 'iu':          # a mean stored in the traces' own integer type (rounded batch mean, reference trace)
                imean = np.array([np.iinfo(dt).max // 2 + 3, 7, 11, np.iinfo(dt).max], dtype=dt)
                g5 = np.asarray(pp.CenterOn(mean=imean)(traces))
                if g5.dtype.kind != 'f' or not np.array_equal(g5.astype('float64'), traces.astype('float64') - imean.astype('float64')):
                    chk.violation('CenterOn:subtracts the given mean without wrap-around (integer mean)', dict(ctx, property='C18', mean=imean.tolist(), got=g5.tolist()), f'CenterOn(integer mean) on {dt}')
                istd = np.array([2, 4, 1, 8], dtype=dt)
                g6 = np.asarray(pp.StandardizeOn(mean=imean, std=istd)(traces))
                if g6.dtype.kind != 'f' or not np.allclose(g6.astype('float64'), (traces.astype('float64') - imean.astype('float64')) / istd.astype('float64')):
                    chk.violation('StandardizeOn:subtracts the given mean without wrap-around (integer mean)', dict(ctx, property='C18', mean=imean.tolist(), std=istd.tolist(), got=g6.tolist()), f'StandardizeOn(integer mean, integer std) on {dt}')
            g4 = np.asarray(pp.StandardizeOn(mean=mean, std=np.array([2.0, 4.0, 0.5, 1.0]))(traces))
            if not np.allclose(g4, (traces.astype('float64') - mean) / np.array([2.0, 4.0, 0.5, 1.0])):
                chk.violation('StandardizeOn:uses the given mean and std', dict(ctx, property='C18'), f'StandardizeOn(mean, std) on {dt}')
        else:
            got = np.asarray(pp.serialize_bit(traces))
            if got.tolist() != r['rows']:
                chk.violation('serialize_bit:bits of every sample, most significant first', dict(ctx, property='C18', got=got.tolist(), expected=r['rows']), 'serialize_bit')


def time_freq(chk, rng):
    import scared
    ho = scared.preprocesses.high_order
    cases, metas = [], []
    for N in (1, 2, 3, 4, 5, 6):
        for _ in range(3):
            a = [rng.randint(-5, 9) for _ in range(N)]
            b = [rng.randint(-5, 9) for _ in range(N)]
            cases.append({'kind': 'tf', 'name': 'xcorr', 'a': a, 'b': b})
            metas.append(('xcorr', a, b))
    for N in (1, 2, 4):
        for name in ('windowfft', 'windowfht', 'fftmodulus'):
            for _ in range(2):
                a = [rng.randint(-5, 9) for _ in range(N)]
                b = [rng.randint(-5, 9) for _ in range(N)]
                cases.append({'kind': 'tf', 'name': name, 'a': a, 'b': b})
                metas.append((name, a, b))
    for (n1, n2) in ((1, 1), (2, 2), (1, 3), (3, 1)):
        for name in ('maxcorr', 'concatfft', 'concatfht'):
            a = [rng.randint(-5, 9) for _ in range(n1)]
            b = [rng.randint(-5, 9) for _ in range(n2)]
            cases.append({'kind': 'tf', 'name': name, 'a': a, 'b': b})
            metas.append((name, a, b))
    res = run_cases(chk, cases, 'CASES:time-frequency')
    for ci, ((name, a, b), r) in enumerate(zip(metas, res)):
        tr = np.array([a + b, [x + 1 for x in a] + [y - 1 for y in b]], dtype=['int16', 'float64', 'float32'][ci % 3])
        f1, f2 = list(range(len(a))), list(range(len(a), len(a) + len(b)))
        chk.count(('tf', ci), nontrivial=len(a) >= 2)
        chk.traces_validated += 1
        ctx = {'part': 'tf', 'name': name, 'a': a, 'b': b}
        try:
            if name == 'fftmodulus':
                got = np.asarray(scared.preprocesses.fft_modulus(np.array([a, a], dtype=tr.dtype)))[0]
                want = np.sqrt(np.array(r['mod2'], dtype='float64'))
            else:
                cls = {'xcorr': ho.Xcorr, 'windowfft': ho.WindowFFT, 'windowfht': ho.WindowFHT, 'maxcorr': ho.MaxCorr, 'concatfft': ho.ConcatFFT, 'concatfht': ho.ConcatFHT}[name]
                got = np.asarray(cls(frame_1=f1, frame_2=f2)(tr))[0]
                if name == 'windowfft':
                    want = np.sqrt(np.array(r['mod2'], dtype='float64'))
                elif name == 'maxcorr':
                    want = np.concatenate([np.array(r['re'], dtype='float64'), np.array(r['im'], dtype='float64'), np.sqrt(np.array(r['mod2'], dtype='float64'))])
                else:
                    want = np.array(r['row'], dtype='float64')
        except Exception as ex:
            chk.violation(f'{name}:equals_its_formula_(length_{len(a)}:_raised)', dict(ctx, property='C18', error=repr(ex)[:200]), f'{name} on frames of length {len(a)}/{len(b)} raised {ex!r}'[:200])
            continue
        if got.shape != want.shape or not np.allclose(got, want, rtol=1e-5, atol=1e-4):
            par = 'odd' if len(a) % 2 else 'even'
            chk.violation(f'{name}:equals_its_formula_({par}_frame_length)', dict(ctx, property='C18', got=got.tolist(), expected=want.tolist()), f'{name}({a}, {b}) = {got.tolist()} expected {want.tolist()}')
    chk.sample({'xcorr_case': {'a': metas[7][1], 'b': metas[7][2], 'expected': res[7]['row']}})


def run(chk):
    rng = random.Random(chk.seed)
    chk.rule = ('combination preprocesses: every (frame_1 form x {no frame_2, frame_2 form} x mode x distance 1..L) x operators x dtype palettes of extreme values, 3-row batches; expected rows are exact '
                'dyadics from specs/PreprocessCases.tla; each case also re-run with the middle row alone and inside another batch; first-order: ToPower 1..4 / square on all dtypes, center / standardize / '
                'CenterOn / StandardizeOn, serialize_bit; time-frequency: Xcorr lengths 1..6, others lengths 1, 2, 4; one evaluation = one configuration on one batch; non-trivial = >= 2 output columns')
    chk.assumptions += ['result must be floating (>= float32) and equal the exact value rounded to the result dtype (operands are exactly representable after promotion)',
                        'time-frequency combinations other than Xcorr are stated only where the DFT is exact over the Gaussian integers (lengths 1, 2, 4)',
                        'slice frames need a stop (slice(2, None) is refused at construction)']
    combos(chk, rng)
    first_order(chk, rng)
    time_freq(chk, rng)


def replay(chk, path):
    rp = json.load(open(path))
    print('recorded case:', {k: rp[k] for k in rp if k in ('label', 'part', 'kind', 'name', 'dtype', 'result_dtype')})
    print('re-run ./check C18 (cases are regenerated from the seed and judged against TLC-computed rows)')
    return 0
