"""C09 - t-test equals the Welch statistic whatever the batching and the interleaving of the two accumulator threads.

(M) specs/TTest.tla: main thread + two accumulator threads, one action per statement group (Reset / Loop / Add / Count / Exit;
    Start, Join, Compute, finally-Stop, JoinBoth, Welch), ALL interleavings, up to 3 batches per set, 2 runs, one injected failure
    at every position: the run always terminates (liveness under weak fairness), raises iff a thread failed, computes each
    accumulator only after its thread ended, produces - when it does not raise - a result from ALL batches of both sets of all
    runs, does not refresh the result when it raises; a variant where both threads add into one accumulator is refuted.
    specs/TTestCases.tla + Stats.tla: the Welch certificate per sample; raw-moment variance = centred definition.
(G) every batch-level interleaving TLC generates (incl. failure positions) is replayed DETERMINISTICALLY on the real
    TTestAnalysis: a public preprocess placed in the TTestContainer is a gate that lets the accumulator threads take their
    batches in exactly the prescribed order (thread identified by threading.current_thread()); results, accumulator means /
    variances / counts against the exact certificates; the injected exception is re-raised to the caller and the result is not
    refreshed.  Free-running executions with random per-batch delays and several numba thread counts are compared as well.
"""
import json
import math
import os
import random
import threading
import time
from fractions import Fraction

import numpy as np

from .. import disthist as dh
from .. import stats as st
from .. import tlc

INV = ['ResultIsWelchOfEverything', 'RaisesIffFailed', 'NoTornRead', 'NoTornRead2', 'CountMatchesSum', 'OwnAccumulatorOnly']


class Boom(Exception):
    pass


def tcfg(runs, fr, ft, fb, bug, gen, inv, props):
    return tlc.cfg(constants={'Runs': runs, 'FailRun': fr, 'FailThread': ft, 'FailBatch': fb, 'SharedBug': bug, 'Gen': gen}, invariants=inv, properties=props)


def model(chk, q):
    confs = []
    for nb in ([(1, 1), (2, 2), (3, 2)] if q else [(1, 1), (2, 2), (3, 2), (3, 3), (1, 3)]):
        confs.append((nb, 1, 0, 0, 0))
        confs.append((nb, 2, 0, 0, 0))
        for t in (1, 2):
            for b in range(1, nb[t - 1] + 1):
                confs.append((nb, 1, 1, t, b))
                if not q or b == 1:
                    confs.append((nb, 2, 1, t, b))
                    confs.append((nb, 2, 2, t, b))
    # consecutive runs on trace sets of different sizes: several batches first, then sets that fit one batch (and the reverse), a failure in either run
    for nb, nb2 in (((3, 2), (1, 1)), ((1, 1), (2, 3))):
        confs.append((nb, 2, 0, 0, 0, nb2))
        for t in (1, 2):
            confs.append((nb, 2, 2, t, 1, nb2))
            confs.append((nb, 2, 1, t, 1, nb2))
    for conf in confs:
        nb, runs, fr, ft, fb = conf[:5]
        nb2 = conf[5] if len(conf) > 5 else nb
        r = tlc.run('TTest', cfg_text=tcfg(runs, fr, ft, fb, 'none', False, INV, ['Terminates', 'NotRefreshedOnFailure']), defs={'NB': tlc.tla(list(nb)), 'NB2': tlc.tla(list(nb2))}, workers=4, timeout=900)
        chk.add_tlc(f'MC:NB={nb}{"" if nb2 == nb else " then " + str(nb2)} runs={runs} fail=(run {fr}, thread {ft}, batch {fb})', r)
        if r.violated:
            raise tlc.TLCError(f'TTest violates {r.violated} for NB={nb} runs={runs} fail={(fr, ft, fb)}\n' + '\n'.join(r.error_trace[:30]))
    r = tlc.run('TTest', cfg_text=tcfg(1, 0, 0, 0, 'shared', False, INV, []), defs={'NB': tlc.tla([2, 2]), 'NB2': tlc.tla([2, 2])}, workers=1, timeout=300)
    chk.add_tlc('MC:shared accumulator (must be refuted)', r)
    if not r.violated:
        raise tlc.TLCError('TTest lost sensitivity: a shared accumulator is not refuted')


def schedules(chk, nb, runs, fr, ft, fb, nb2=None):
    nb2 = nb2 or nb
    r = tlc.run('TTest', cfg_text=tcfg(runs, fr, ft, fb, 'none', True, ['Emit'], []), defs={'NB': tlc.tla(list(nb)), 'NB2': tlc.tla(list(nb2))}, workers=1, timeout=900)
    chk.add_tlc(f'GEN:schedules NB={nb}{"" if nb2 == nb else " then " + str(nb2)} runs={runs} fail=({fr},{ft},{fb})', r)
    seen, out = set(), []
    for e in r.emits():
        key = json.dumps(e['sched'])
        if key not in seen:
            seen.add(key)
            out.append(e)
    return out


class Gate:
    """A preprocess that serialises the accumulator threads' batches in a prescribed order."""

    def __init__(self, analysis, schedule, delays=None, rng=None):
        self.analysis = analysis
        self.schedule = schedule          # list of [kind, thread] for the current run ; None = free running
        self.pos = 0
        self.busy = False
        self.cond = threading.Condition()
        self.delays = delays
        self.rng = rng
        self.order = []
        self.__name__ = 'gate'
        # where the scripted failure sits, counted per trace set (so that it can still be injected if the scripted ORDER cannot be followed)
        self.fail_at = None
        self.seen = {1: 0, 2: 0}
        self.abandoned = False
        cnt = {1: 0, 2: 0}
        for kind, i in (schedule or []):
            if kind == 'F':
                self.fail_at = (i, cnt[i] + 1)
                break
            cnt[i] += 1

    @staticmethod
    def transform(traces):
        return traces * 2 + 1          # keeps the dtype and the memory layout of the batch (small integers: exact in every type used)

    def for_set(self, i):
        """the preprocess placed in the container of trace set i (1 or 2): whichever thread processes the batch, it is a batch of set i"""
        def gate(traces):
            return self.call(traces, i)
        gate.__name__ = f'gate{i}'
        return gate

    def call(self, traces, i):
        out = self.transform(traces)
        lay = getattr(self, 'layout', None)
        if lay == 'F':
            out = np.asfortranarray(out)               # a preprocess may return any memory layout: column-major ...
        elif lay == 'T':
            out = np.ascontiguousarray(out.T).T        # ... a transposed view of a row-major array ...
        elif lay == 'S':
            wide = np.zeros((out.shape[0], 2 * out.shape[1]), dtype=out.dtype)
            wide[:, ::2] = out
            out = wide[:, ::2]                         # ... or every second column of a wider buffer
        if self.schedule is None:
            if self.delays:
                time.sleep(self.rng.random() * self.delays)
            if getattr(self, 'slow', None) and i in self.slow:
                time.sleep(self.slow[i])          # one trace set much slower than the other: its thread is still busy long after the other ended
            return out
        with self.cond:
            self.seen[i] += 1
            ok = self.abandoned or self.cond.wait_for(lambda: self.abandoned or self.pos >= len(self.schedule) or (not self.busy and self.schedule[self.pos][1] == i), timeout=8)
            if not ok or self.abandoned:
                # the implementation does not take the batches in an order the thread model allows (e.g. it processes the sets one after the other):
                # the ORDER is the mechanism's business - give it up (reported as drift), keep injecting the scripted failure at its (set, batch)
                self.abandoned = True
                self.cond.notify_all()
                if self.fail_at == (i, self.seen[i]):
                    self.order.append(['F', i])
                    raise Boom(f'injected failure in accumulator {i}')
                return out
            if self.pos >= len(self.schedule):
                return out                 # after the scripted part (e.g. after a failure): free
            kind = self.schedule[self.pos][0]
            if kind == 'F':
                self.pos += 1
                self.order.append(['F', i])
                self.cond.notify_all()
                raise Boom(f'injected failure in accumulator {i}')
            self.busy = True
            self.order.append(['B', i])
        return out

    def done(self, i):
        with self.cond:
            if self.schedule is not None and self.busy:
                self.busy = False
                self.pos += 1
                self.cond.notify_all()


def build(analysis, rows1, rows2, dtype, frame, gate):
    import scared
    a = np.array(rows1, dtype=dtype)
    b = np.array(rows2, dtype=dtype)
    plain = scared.preprocess(Gate.transform)
    cont = scared.TTestContainer(scared.traces.read_ths_from_ram(samples=a), scared.traces.read_ths_from_ram(samples=b), frame=frame, preprocesses=[plain])
    for i, c in enumerate(cont.containers, 1):
        c.trace_size                                   # the one-trace probe happens here, with the ungated preprocess; the value is cached
        c.preprocesses = [scared.preprocess(gate.for_set(i))]
    return cont


def install_done_hooks(analysis, gate):
    for i, acc in enumerate(analysis.accumulators, 1):
        if getattr(acc, '_verif_wrapped', False):
            continue
        u0 = acc.update

        def upd(traces, _u0=u0, _i=i):
            try:
                return _u0(traces)
            finally:
                gate.done(_i)
        acc.update = upd
        acc._verif_wrapped = True


def expected(chk, datasets):
    path = dh.write_json(datasets)
    try:
        r = tlc.run('TTestCases', cfg_text=tlc.cfg(invariants=['VarianceFormulationsAgree', 'ReplicationLemma', 'ShiftLemma', 'Emit']), env={'CASES': path}, workers=1, timeout=600)
    finally:
        os.unlink(path)
    chk.add_tlc('GEN:Welch certificates', r)
    if r.violated:
        raise tlc.TLCError(f'TTestCases violates {r.violated}')
    return {e['case'] - 1: e for e in r.emits()}


def welch_values(cert, rep=1):
    """rep: both sets presented rep times (TTestCases.ReplicationLemma: the second component is divided by rep)"""
    out = []
    for d, q in cert:
        dd, qq = Fraction(d[0], d[1]), (Fraction(q[0], q[1]) / rep if q[1] else None)
        out.append(None if not qq else float(dd) / math.sqrt(float(qq)))
    return out


def compare_result(chk, analysis, exp, precision, ctx, rep=1, shift=0):
    want = welch_values(exp['cert'], rep)
    got = np.asarray(analysis.result, dtype='float64')
    eps = st.eps_of(precision)
    for s, w in enumerate(want):
        if w is None:
            continue
        m1 = abs(float(Fraction(*exp['mean1'][s]))) + abs(shift) + 1     # shift: the case presented on a common offset (TTestCases.ShiftLemma)
        v1 = float(Fraction(*exp['var1'][s])) + 1e-30
        kappa = 8 + 8 * (m1 * m1) / v1
        if got.shape != (len(want),) or not np.isfinite(got[s]) or abs(got[s] - w) > 64 * eps * kappa * (abs(w) + 1):
            chk.violation('result equals (mean1 - mean2) / sqrt(var1/n1 + var2/n2) over all traces of both sets', dict(ctx, property='C09', sample=s, got=got.tolist(), expected=want),
                          f'{ctx["label"]}: t[{s}] = {got[s] if got.shape == (len(want),) else got.shape}, expected {w}')
            return False
    return True


def apply_frame_pre(rows, frame_idx):
    return [[2 * r[j] + 1 for j in frame_idx] for r in rows]


def run(chk):
    import numba
    import scared
    rng = random.Random(chk.seed)
    q = chk.tier == 'quick'
    chk.rule = ('TLC explores every interleaving of the thread and main steps for <= 3 batches per set, 1-2 runs, a failure at every position; every distinct batch-level schedule it generates is replayed on a real '
                'TTestAnalysis through the gate preprocess; one evaluation = one schedule replayed (result, accumulators, exception); non-trivial = both threads have >= 1 batch interleaved or a failure; plus '
                'free-running executions with random delays and thread counts')
    chk.assumptions += ['interleavings inside the numba kernel are not controllable; the model shows the threads touch disjoint accumulators', 'the gate preprocess also changes the values (2x + 1), so "preprocesses applied" is part of every expected value',
                        'sqrt evaluated outside TLC on exact rational certificates']
    model(chk, q)
    old = scared.Container._BATCH_SIZE
    L = 4
    frames = [(None, [0, 1, 2, 3]), (slice(1, 4), [1, 2, 3]), ([0, 2], [0, 2])]
    confs = [((2, 2), 1, 0, 0, 0), ((3, 2), 1, 0, 0, 0), ((2, 2), 2, 0, 0, 0), ((2, 2), 1, 1, 1, 2), ((3, 2), 1, 1, 2, 1), ((2, 2), 2, 1, 2, 2),
             ((2, 2), 2, 2, 1, 1, (1, 1)), ((2, 2), 2, 2, 2, 1, (1, 1)), ((1, 1), 2, 0, 0, 0, (2, 2))]        # second run on sets that fit one batch (failing) / on larger sets
    if not q:
        confs += [((3, 3), 1, 0, 0, 0), ((3, 2), 2, 0, 0, 0), ((3, 3), 1, 1, 1, 3), ((1, 3), 1, 0, 0, 0), ((3, 2), 2, 2, 1, 1)]
    try:
        datasets, plan = [], []
        for ci, conf in enumerate(confs):
            nb, runs, fr, ft, fb = conf[:5]
            nb2 = conf[5] if len(conf) > 5 else nb
            nbr = [nb] + [nb2] * (runs - 1)                      # batches per set, run by run
            scheds = schedules(chk, nb, runs, fr, ft, fb, nb2)
            if q and len(scheds) > 12:
                rng.shuffle(scheds)
                scheds = scheds[:12]
            bs = rng.choice([2, 3])
            sizes = [[(nbr[r][i] - 1) * bs + rng.choice([1, bs]) for i in range(2)] for r in range(runs)]      # sizes[run][set]
            offs = [[sum(sizes[k][i] for k in range(r)) for i in range(2)] for r in range(runs + 1)]           # offs[run][set]: first row of that run
            rows = [[[rng.randint(0, 9) for _ in range(L)] for _ in range(offs[runs][i])] for i in range(2)]     # gate: 2x+1 <= 19, whose square fits no 8-bit type
            fi = ci % len(frames)
            # expected per number of completed runs
            exp_idx = {}
            for upto in range(1, runs + 1):
                exp_idx[upto] = len(datasets)
                datasets.append({'a': apply_frame_pre(rows[0][:offs[upto][0]], frames[fi][1]), 'b': apply_frame_pre(rows[1][:offs[upto][1]], frames[fi][1])})
            plan.append((nb, nbr, offs, runs, fr, ft, fb, scheds, bs, sizes, rows, fi, exp_idx))
        exps = expected(chk, datasets)
        for (nb, nbr, offs, runs, fr, ft, fb, scheds, bs, sizes, rows, fi, exp_idx) in plan:
            for si, e in enumerate(scheds):
                sched = e['sched']
                prec = 'float64' if si % 2 else 'float32'
                dtype = ['uint8', 'int16', 'float32', 'int8'][si % 4]
                label = f'NB={nbr} runs={runs} fail=({fr},{ft},{fb}) schedule={"".join(k + str(i) for k, i in sched)} {prec}/{dtype}'
                ctx = {'label': label, 'schedule': sched, 'nb': list(nb), 'runs': runs, 'fail': [fr, ft, fb], 'batch_size': bs, 'sizes': sizes, 'rows': rows, 'frame': fi, 'precision': prec, 'dtype': dtype}
                scared.set_batch_size(bs)
                an = scared.TTestAnalysis(precision=prec)
                # split the schedule per run: a run's events end when both threads have had NB batches or a failure occurred
                per_run, cur, seen = [], [], {1: 0, 2: 0}
                k = 0
                for r in range(1, runs + 1):
                    cur = []
                    cnt = {1: 0, 2: 0}
                    failed = False
                    while k < len(sched):
                        kind, i = sched[k]
                        if kind == 'B' and cnt[i] >= nbr[r - 1][i - 1]:
                            break
                        cur.append(sched[k])
                        k += 1
                        if kind == 'F':
                            failed = True
                        else:
                            cnt[i] += 1
                        if not failed and cnt[1] == nbr[r - 1][0] and cnt[2] == nbr[r - 1][1]:
                            break
                    per_run.append(cur)
                bad = None
                prev_result = None
                gates_used = []
                for r in range(1, runs + 1):
                    gate = Gate(an, per_run[r - 1])
                    cont = build(an, rows[0][offs[r - 1][0]:offs[r][0]], rows[1][offs[r - 1][1]:offs[r][1]], dtype, frames[fi][0], gate)
                    if not an.accumulators:
                        an.accumulators = [scared.ttest.TTestThreadAccumulator(precision=an.precision), scared.ttest.TTestThreadAccumulator(precision=an.precision)]
                    install_done_hooks(an, gate)
                    for acc in an.accumulators:
                        pass
                    # rebind the gates of the hooks to this run's gate
                    for i, acc in enumerate(an.accumulators, 1):
                        acc._verif_gate = gate
                    _rebind(an, gate)
                    will_fail = (fr == r)
                    gates_used.append((gate, per_run[r - 1]))
                    try:
                        an.run(cont)
                        raised = None
                    except Boom as ex:
                        raised = ex
                    except Exception as ex:
                        bad = f'run() raised an unexpected {type(ex).__name__}: {ex}'
                        break
                    if will_fail and raised is None:
                        bad = 'a failure in one accumulator thread is re-raised to the caller'
                        break
                    if not will_fail and raised is not None:
                        bad = 'run() raises only when a thread failed'
                        break
                    if will_fail:
                        now = getattr(an, 'result', None)
                        if (prev_result is None) != (now is None) or (now is not None and not np.array_equal(now, prev_result, equal_nan=True)):
                            bad = 'a run that raises does not yield (refresh) a result'
                        break
                    if not compare_result(chk, an, exps[exp_idx[r]], prec, ctx):
                        bad = 'reported'
                        break
                    for i in range(2):
                        if an.accumulators[i].processed_traces != offs[r][i]:
                            bad = f'accumulator {i + 1} counts all traces of its set ({an.accumulators[i].processed_traces} vs {offs[r][i]})'
                    prev_result = np.array(an.result, copy=True)
                for g, want_order in gates_used:
                    if g.abandoned:
                        chk.drift += 1
                        continue
                    if g.order != [list(x) for x in want_order][:len(g.order)] or (bad is None and not any(x[0] == 'F' for x in want_order) and len(g.order) != len(want_order)):
                        raise tlc.TLCError(f'gate binding broken: prescribed {want_order}, observed {g.order} ({label})')
                inter = len(set(i for _, i in sched)) == 2
                chk.count(('G', str(nb), runs, fr, ft, fb, json.dumps(sched), prec, dtype), nontrivial=inter or fr > 0)
                chk.traces_validated += 1
                if bad and bad != 'reported':
                    chk.violation(bad.split(' (')[0], dict(ctx, property='C09', clause=bad), f'{label}: {bad}')
                if len(chk.samples) < 3 and inter:
                    chk.sample({'schedule': sched, 'batches_per_set': list(nb), 'runs': runs, 'failure': [fr, ft, fb]})
        free_running(chk, rng, q)
    finally:
        scared.Container._BATCH_SIZE = old
        numba.set_num_threads(min(16, numba.config.NUMBA_NUM_THREADS))


def _rebind(an, gate):
    """the update wrappers installed once must signal the gate of the current run"""
    for i, acc in enumerate(an.accumulators, 1):
        if not hasattr(acc, '_verif_orig_update'):
            acc._verif_orig_update = acc.update.__defaults__[0] if acc.update.__defaults__ else acc.update
        u0 = acc._verif_orig_update

        def upd(traces, _u0=u0, _i=i, _g=gate):
            try:
                return _u0(traces)
            finally:
                _g.done(_i)
        acc.update = upd


def free_running(chk, rng, q):
    import numba
    import scared
    n = 6 if q else 40
    datasets, metas = [], []
    for k in range(n):
        L = 3
        n1, n2 = rng.randint(1, 14), rng.randint(1, 14)
        rows = [[[rng.randint(0, 9) for _ in range(L)] for _ in range(n1)], [[rng.randint(0, 9) for _ in range(L)] for _ in range(n2)]]
        datasets.append({'a': apply_frame_pre(rows[0], [0, 1, 2]), 'b': apply_frame_pre(rows[1], [0, 1, 2])})
        metas.append((rows, rng.choice([1, 2, 3, 7, 50]), rng.choice([1, 2, 4, 16])))
    exps = expected(chk, datasets)
    for k, (rows, bs, nt) in enumerate(metas):
        numba.set_num_threads(min(nt, numba.config.NUMBA_NUM_THREADS))
        scared.set_batch_size(bs)
        prec = 'float64' if k % 2 else 'float32'
        an = scared.TTestAnalysis(precision=prec)
        gate = Gate(an, None, delays=0.003, rng=random.Random(k))
        fdt = ['int16', 'uint8', 'int8'][k % 3]
        cont = build(an, rows[0], rows[1], fdt, None, gate)
        an.run(cont)
        ctx = {'label': f'free-running n=({len(rows[0])},{len(rows[1])}) batch={bs} threads={nt} {prec}/{fdt}', 'dtype': fdt, 'rows': rows, 'batch_size': bs, 'threads': nt, 'precision': prec}
        chk.count(('free', k), nontrivial=len(rows[0]) > bs or len(rows[1]) > bs)
        chk.traces_validated += 1
        compare_result(chk, an, exps[k], prec, ctx)
        if k < (2 if q else 6) and max(len(rows[0]), len(rows[1])) >= 4:
            # one set takes seconds longer than the other (slow storage, heavier preprocessing): the result still is the statistic of all traces
            slow_set = 1 + k % 2
            scared.set_batch_size(max(1, len(rows[slow_set - 1]) // 4))
            an = scared.TTestAnalysis(precision=prec)
            g2 = Gate(an, None)
            g2.slow = {slow_set: 0.35}
            an.run(build(an, rows[0], rows[1], fdt, None, g2))
            chk.count(('free-slow', k), nontrivial=True)
            chk.traces_validated += 1
            compare_result(chk, an, exps[k], prec, dict(ctx, label=ctx['label'] + f' (set {slow_set} slow: 0.35 s per batch)', slow_set=slow_set))
            for i_ in range(2):
                if an.accumulators[i_].processed_traces != len(rows[i_]):
                    chk.violation('result equals (mean1 - mean2) / sqrt(var1/n1 + var2/n2) over all traces of both sets', dict(ctx, property='C09', slow_set=slow_set, processed=[int(a_.processed_traces) for a_ in an.accumulators]),
                                  f'{ctx["label"]} (set {slow_set} slow): accumulator {i_ + 1} processed {an.accumulators[i_].processed_traces} of {len(rows[i_])} traces')
        if k < (3 if q else 12):
            # the same sets on a common offset (TTestCases.ShiftLemma: same certificate), stored in float32 (squares beyond 2^24: not representable in the
            # traces' own type), accumulated in float64, the preprocess returning column-major / transposed / strided batches
            for li, lay in enumerate(['F', 'T', 'S', None]):
                off = [2048, 3000, 1500][(k + li) % 3]
                sh = [(np.array(r_, dtype='float32') + off) for r_ in rows]
                for bs2 in ((bs, 10 ** 6) if li == 0 else (bs,)):
                    scared.set_batch_size(bs2)
                    an = scared.TTestAnalysis(precision='float64')
                    g3 = Gate(an, None)
                    g3.layout = lay
                    an.run(build(an, sh[0], sh[1], 'float32', None, g3))
                    chk.count(('free-shift', k, lay, bs2), nontrivial=True)
                    chk.traces_validated += 1
                    compare_result(chk, an, exps[k], 'float64', dict(ctx, label=ctx['label'] + f' on offset {off} in float32, float64 precision, preprocess output layout {lay} (batch size {bs2})',
                                                                      offset=off, layout=lay, batch_size=bs2, dtype='float32', precision='float64'), shift=2 * off)
        if k < (2 if q else 8):
            # the same sets presented rep times: many thousand traces, taken as ONE batch per set and as a few large batches
            rep = 10007 // min(len(rows[0]), len(rows[1])) + 1
            big = [np.tile(np.array(rows[0]), (rep, 1)).tolist(), np.tile(np.array(rows[1]), (rep, 1)).tolist()]
            for bs2 in (10 ** 6, 4099):
                scared.set_batch_size(bs2)
                an = scared.TTestAnalysis(precision='float64')
                cont = build(an, big[0], big[1], fdt, None, Gate(an, None))
                an.run(cont)
                chk.count(('free-large', k, bs2), nontrivial=True)
                chk.traces_validated += 1
                compare_result(chk, an, exps[k], 'float64', dict(ctx, label=ctx['label'] + f' x{rep} (batch size {bs2})', repeated=rep, batch_size=bs2, rows=None), rep=rep)


def replay(chk, path):
    rp = json.load(open(path))
    print({k: rp[k] for k in ('label', 'clause') if k in rp})
    print('re-run ./check C09 (schedules are regenerated by TLC; the label identifies the schedule)')
    return 0
