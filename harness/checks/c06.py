"""C06 - DES / TDES encrypt / decrypt and every intermediate stop point conform to FIPS 46-3.

(M) specs/DES.tla is FIPS 46-3 on bit sequences: IP and E from their generating formulas, FP = IP^-1, P / PC-1 / PC-2 / shifts
    and the S-boxes in row/column form (a different layout from the code's direct-index tables).  specs/DESRun.tla runs it as
    a step machine (one transition per Feistel round, EDE passes for two- and three-key TDES): decrypt(encrypt(x)) = x on
    every behaviour, FP o IP = id, P^-1 o P = id, parity bits never influence a schedule, the classic known answer holds.
(G) for every behaviour EVERY stop point (at_des x 16 rounds x 10 steps x {encrypt, decrypt}) of the real code is compared with
    the documented view of the machine: with master keys and with pre-expanded round keys (128 / 256 / 384 bytes), in the
    four broadcasting shapes, caller arrays unchanged; every S-box input; IP / FP / E / P / P^-1 on every single-bit vector,
    all-ones and random vectors.
"""
import json
import os
import random

import numpy as np

from .. import disthist as dh
from .. import tlc
from ..core import scribble

KAT = {'keys': [[0x13, 0x34, 0x57, 0x79, 0x9B, 0xBC, 0xDF, 0xF1]], 'block': [0x01, 0x23, 0x45, 0x67, 0x89, 0xAB, 0xCD, 0xEF]}


def des_inputs(rng, nkeys, nblocks):
    cases = [KAT]
    grid = {}
    for nk in (1, 2, 3):
        keysets = [[[0] * 8] * nk, [[1 << (i % 8) if i == 2 else 0 for i in range(8)] for _ in range(nk)]][:max(0, min(2, nkeys - 1))]
        while len(keysets) < nkeys:
            keysets.append([[rng.randint(0, 255) for _ in range(8)] for _ in range(nk)])
        blocks = [[0] * 8][:max(0, nblocks - 1)]
        while len(blocks) < nblocks:
            blocks.append([rng.randint(0, 255) for _ in range(8)])
        for ki, ks in enumerate(keysets):
            for bi, b in enumerate(blocks):
                grid[(nk, ki, bi)] = len(cases)
                cases.append({'keys': [list(k) for k in ks], 'block': b})
    return cases, grid


def run_machine(chk, cases, label):
    path = dh.write_json(cases)
    try:
        r = tlc.run('DESRun', cfg_text=tlc.cfg(invariants=['KnownAnswer', 'DecryptInvertsEncrypt', 'FPInvertsIP', 'ParityIrrelevant', 'Emit']), env={'CASES': path}, workers=8, timeout=3000, heap='6g')
    finally:
        os.unlink(path)
    chk.add_tlc(label, r)
    if r.violated:
        raise tlc.TLCError(f'DESRun violates {r.violated}\n' + '\n'.join(r.error_trace[:20]))
    out = {e['case'] - 1: e for e in r.emits()}
    if len(out) != len(cases):
        raise tlc.TLCError(f'DESRun emitted {len(out)} behaviours for {len(cases)} cases')
    return out


def flat_key(c):
    return [b for k in c['keys'] for b in k]


def expanded_key(e):
    return [w for k in e['rk'] for r in k for w in r]


def cmp(chk, got, want, sig, ctx, text):
    got = np.asarray(got)
    want = np.asarray(want)
    if got.shape != want.shape or not np.array_equal(got.astype('int64'), want.astype('int64')):
        chk.violation(sig, dict(ctx, property='C06', got=got.tolist(), expected=want.tolist()), text)
        return False
    scribble(got)         # the result is the caller's: whatever they write into it must not reach later results
    return True


def all_stops(chk, cases, beh, ci, rounds, use_expanded, dtype):
    import scared
    c, e = cases[ci], beh[ci]
    npass = 1 if len(c['keys']) == 1 else 3
    key = np.array(expanded_key(e) if use_expanded else flat_key(c), dtype=dtype)
    blk = np.array(c['block'], dtype=dtype)
    ct = np.array(e['enc'][(npass - 1) * 16 + 15][9], dtype=dtype)
    k0, b0 = key.copy(), blk.copy()
    name = {1: 'DES', 2: 'TDES-2key', 3: 'TDES-3key'}[len(c['keys'])] + ('(expanded keys)' if use_expanded else '')
    for mode, f, inp in (('encrypt', scared.des.encrypt, blk), ('decrypt', scared.des.decrypt, ct)):
        tr = e['enc' if mode == 'encrypt' else 'dec']
        for d in range(npass):
            for r in rounds:
                for s in range(10):
                    chk.count(('stop', ci, mode, d, r, s, use_expanded), nontrivial=True)
                    g = f(inp, key, at_des=d, at_round=r, after_step=s)
                    cmp(chk, g, tr[d * 16 + r][s], f'{mode}:value at (pass, round, step) equals the documented intermediate value (step {s})',
                        {'part': 'stop', 'keys': c['keys'], 'expanded': use_expanded, 'block': inp.tolist(), 'mode': mode, 'at_des': d, 'at_round': r, 'after_step': s},
                        f'{name} {mode} at_des={d} at_round={r} after_step={s}')
        g = f(inp, key)
        cmp(chk, g, tr[(npass - 1) * 16 + 15][9], f'{mode}:result', {'part': 'full', 'keys': c['keys'], 'expanded': use_expanded, 'block': inp.tolist(), 'mode': mode}, f'{name} {mode} (full)')
    if not (np.array_equal(key, k0) and np.array_equal(blk, b0)):
        chk.violation('caller arrays are not modified', {'property': 'C06', 'part': 'stop', 'keys': c['keys']}, 'encrypt/decrypt modified an input array')
    chk.traces_validated += 1


def shapes(chk, cases, grid, beh, rng, nkeys, nblocks):
    import scared
    for nk in (1, 2, 3):
        npass = 1 if nk == 1 else 3
        for _ in range(6):
            d, r, s = rng.randint(0, npass - 1), rng.randint(0, 15), rng.randint(0, 9)
            for ki in range(nkeys):
                idx = [grid[(nk, ki, bi)] for bi in range(nblocks)]
                key = np.array(flat_key(cases[idx[0]]), dtype='uint8')
                blocks = np.array([cases[i]['block'] for i in idx], dtype='uint8')
                chk.count(('shape', 'blocks', nk, ki, d, r, s), nontrivial=True)
                cmp(chk, scared.des.encrypt(blocks, key, at_des=d, at_round=r, after_step=s), [beh[i]['enc'][d * 16 + r][s] for i in idx], 'encrypt:many blocks with one key',
                    {'part': 'shape', 'shape': 'many blocks, one key', 'at': [d, r, s]}, 'encrypt (N,8) x key')
            for bi in range(nblocks):
                idx = [grid[(nk, ki, bi)] for ki in range(nkeys)]
                keys = np.array([flat_key(cases[i]) for i in idx], dtype='uint8')
                blk = np.array(cases[idx[0]]['block'], dtype='uint8')
                chk.count(('shape', 'keys', nk, bi, d, r, s), nontrivial=True)
                cmp(chk, scared.des.encrypt(blk, keys, at_des=d, at_round=r, after_step=s), [beh[i]['enc'][d * 16 + r][s] for i in idx], 'encrypt:one block with many keys',
                    {'part': 'shape', 'shape': 'one block, many keys', 'at': [d, r, s]}, 'encrypt (8,) x (N,k)')
            m = min(nkeys, nblocks)
            idx = [grid[(nk, j, (j + 1) % nblocks)] for j in range(m)]
            keys = np.array([flat_key(cases[i]) for i in idx], dtype='uint8')
            blocks = np.array([cases[i]['block'] for i in idx], dtype='uint8')
            cts = np.array([beh[i]['enc'][(npass - 1) * 16 + 15][9] for i in idx], dtype='uint8')
            chk.count(('shape', 'pairs', nk, d, r, s), nontrivial=True)
            cmp(chk, scared.des.encrypt(blocks, keys, at_des=d, at_round=r, after_step=s), [beh[i]['enc'][d * 16 + r][s] for i in idx], 'encrypt:blocks paired with keys', {'part': 'shape', 'shape': 'pairs', 'at': [d, r, s]}, 'encrypt pairs')
            cmp(chk, scared.des.decrypt(cts, keys, at_des=d, at_round=r, after_step=s), [beh[i]['dec'][d * 16 + r][s] for i in idx], 'decrypt:blocks paired with keys', {'part': 'shape', 'shape': 'pairs', 'at': [d, r, s]}, 'decrypt pairs')


def large_batches(chk, cases, beh, sizes):
    """the batch forms are the row-wise map of the single-block cipher: batches larger than any internal chunking, rows cycling through the
    TLC-evaluated behaviours - every row (the last ones included) is its own documented value"""
    import scared
    for nk in (1, 2, 3):
        idx = [i for i, c in enumerate(cases) if len(c['keys']) == nk]
        npass = 1 if nk == 1 else 3
        for N in sizes:
            sel = [(j * 5 + N) % len(idx) for j in range(N)]
            keys = np.array([flat_key(cases[i]) for i in idx], dtype='uint8')[sel]
            blocks = np.array([cases[i]['block'] for i in idx], dtype='uint8')[sel]
            d, r, s_ = (N + nk) % npass, (N // 7) % 16, (N // 3) % 10
            full = np.array([beh[i]['enc'][(npass - 1) * 16 + 15][9] for i in idx], dtype='uint8')[sel]
            for name, got, exp in (('encrypt:blocks paired with keys (large batch)', scared.des.encrypt(blocks, keys), full),
                                   ('decrypt:blocks paired with keys (large batch)', scared.des.decrypt(full, keys), blocks)):
                got = np.asarray(got)
                chk.count(('large', nk, N, name), nontrivial=True)
                if got.shape != exp.shape or not np.array_equal(got, exp):
                    badrow = int(np.nonzero(np.any(got != exp, axis=1))[0][-1]) if got.shape == exp.shape else -1
                    chk.violation(name, {'property': 'C06', 'part': 'large', 'rows': N, 'keys_per_row': nk, 'row': badrow, 'key': keys[badrow].tolist(), 'block': blocks[badrow].tolist(),
                                         'got': got[badrow].tolist() if badrow >= 0 else list(got.shape), 'expected': exp[badrow].tolist()}, f'{name}: row {badrow} of {N} is not the documented value')
            if N <= 48:
                # the same rows with pre-expanded keys (batches of N pre-expanded keys; N = 1, 2, 3 keys of 128 bytes are as many bytes as longer single keys)
                for M in (2, 3, 4, N):                 # (a batch of ONE row comes back as a single state: shape conventions are not part of the statement)
                    ek = np.array([expanded_key(beh[i]) for i in idx], dtype='uint8')[sel[:M]]
                    got = np.asarray(scared.des.encrypt(blocks[:M], ek))
                    chk.count(('large', nk, N, 'expanded', M), nontrivial=True)
                    if got.shape != full[:M].shape or not np.array_equal(got, full[:M]):
                        chk.violation('encrypt:blocks paired with keys (batch of pre-expanded keys)', {'property': 'C06', 'part': 'large', 'rows': M, 'keys_per_row': nk, 'expanded': True, 'got_shape': list(got.shape)},
                                      f'encrypt of {M} blocks with {M} pre-expanded keys ({ek.shape[1]} bytes each): not the documented values')
            # a stop point: views have different widths, compare row by row against the per-behaviour table
            tab = [np.asarray(beh[i]['enc'][d * 16 + r][s_]) for i in idx]
            got = np.asarray(scared.des.encrypt(blocks, keys, at_des=d, at_round=r, after_step=s_))
            exp = np.array(tab)[sel]
            chk.count(('large', nk, N, 'stop'), nontrivial=True)
            if got.shape != exp.shape or not np.array_equal(got, exp):
                chk.violation('encrypt:blocks paired with keys (large batch, stop point)', {'property': 'C06', 'part': 'large', 'rows': N, 'keys_per_row': nk, 'at': [d, r, s_]},
                              f'encrypt of {N} rows at (pass {d}, round {r}, step {s_}): some row is not the documented value')
        chk.traces_validated += 1


def caller_owned(chk, cases, beh):
    """encrypt / decrypt are functions of (block, key): whatever the caller did with arrays returned by earlier calls (key schedules, results) - here,
    overwriting them - a later call with the same block and key still returns the specification's value"""
    import scared
    for ci, c in enumerate(cases):
        e = beh[ci]
        npass = 1 if len(c['keys']) == 1 else 3
        key = np.array(flat_key(c), dtype='uint8')
        blk = np.array(c['block'], dtype='uint8')
        want = e['enc'][(npass - 1) * 16 + 15][9]
        for k8 in c['keys']:
            ks = scared.des.key_schedule(np.array(k8, dtype='uint8'))
            if isinstance(ks, np.ndarray) and ks.flags.writeable:
                ks[...] = 0x2A
        first = scared.des.encrypt(blk, key)
        ok1 = cmp(chk, first, want, 'encrypt:result does not depend on what the caller wrote into arrays returned by earlier calls',
                  {'part': 'owned', 'keys': c['keys'], 'block': c['block'], 'mode': 'encrypt', 'after': 'key_schedule result overwritten'}, 'encrypt after the caller overwrote a returned key schedule')
        if isinstance(first, np.ndarray) and first.flags.writeable:
            first[...] = 0
        mid = scared.des.encrypt(blk, key, at_des=npass - 1, at_round=3, after_step=4)
        if isinstance(mid, np.ndarray) and mid.flags.writeable:
            mid[...] = 0xFF
        cmp(chk, scared.des.encrypt(blk, key), want, 'encrypt:result does not depend on what the caller wrote into arrays returned by earlier calls',
            {'part': 'owned', 'keys': c['keys'], 'block': c['block'], 'mode': 'encrypt', 'after': 'results overwritten'}, 'encrypt after the caller overwrote earlier results')
        cmp(chk, scared.des.decrypt(np.array(want, dtype='uint8'), key), c['block'], 'decrypt:result does not depend on what the caller wrote into arrays returned by earlier calls',
            {'part': 'owned', 'keys': c['keys'], 'block': want, 'mode': 'decrypt', 'after': 'results overwritten'}, 'decrypt after the caller overwrote earlier results')
        chk.count(('owned', ci), nontrivial=True)
        chk.traces_validated += 1


def primitives(chk, rng):
    import scared
    vec = {'v64': [[rng.randint(0, 255) for _ in range(8)] for _ in range(40)], 'v32': [[rng.randint(0, 255) for _ in range(4)] for _ in range(40)]}
    path = dh.write_json(vec)
    try:
        r = tlc.run('DESOps', cfg_text=tlc.cfg(invariants=['SingleBitsStaySingle', 'Emit']), env={'CASES': path}, workers=1, timeout=600)
    finally:
        os.unlink(path)
    chk.add_tlc('GEN:primitives (S-boxes exhaustive, permutations on unit / all-ones / random vectors)', r)
    if r.violated:
        raise tlc.TLCError(f'DESOps violates {r.violated}')
    for e in r.emits():
        if e['what'] == 'sboxes':
            for w in range(64):
                inp = np.array([w] * 8, dtype='uint8')
                got = scared.des.sboxes(inp)
                want = [e['out'][i][w] for i in range(8)]
                chk.count(('sbox', w), nontrivial=True)
                cmp(chk, got, want, 'sboxes:every S-box on every 6-bit input equals the FIPS table', {'part': 'prim', 'input': inp.tolist()}, f'sboxes({w} x 8)')
        elif e['what'] == 'p64':
            inp = np.array(e['inp'], dtype='uint8')
            i0 = inp.copy()
            chk.count(('ip',), nontrivial=True)
            cmp(chk, scared.des.initial_permutation(inp), e['ip'], 'initial_permutation:equals IP on every vector', {'part': 'prim'}, 'IP')
            cmp(chk, scared.des.final_permutation(inp), e['fp'], 'final_permutation:equals FP = IP^-1 on every vector', {'part': 'prim'}, 'FP')
            for i in (0, 7, 64, 70):
                cmp(chk, scared.des.initial_permutation(inp[i]), e['ip'][i], 'initial_permutation:single block', {'part': 'prim'}, 'IP single')
            if not np.array_equal(inp, i0):
                chk.violation('caller arrays are not modified', {'property': 'C06', 'part': 'prim'}, 'a permutation modified its input')
        else:
            inp = np.array(e['inp'], dtype='uint8')
            chk.count(('p32',), nontrivial=True)
            cmp(chk, scared.des.expansive_permutation(inp), e['e'], 'expansive_permutation:equals E', {'part': 'prim'}, 'E')
            cmp(chk, scared.des.inv_permutation_p(inp), e['pinv'], 'inv_permutation_p:equals P^-1', {'part': 'prim'}, 'P^-1')
            cmp(chk, scared.des.permutation_p(np.array(e['nib'], dtype='uint8')), e['p'], 'permutation_p:equals P', {'part': 'prim'}, 'P')
        chk.traces_validated += 1


def run(chk):
    rng = random.Random(chk.seed)
    q = chk.tier == 'quick'
    nkeys, nblocks = (2, 2) if q else (8, 6)
    chk.rule = ('inputs: the classic known answer + a grid of (structured + seeded random) key sets x blocks for DES, two-key and three-key TDES; each is one behaviour of the step machine '
                '(encrypt then decrypt); one evaluation = one stop point / shape / primitive vector compared; every at_des x at_round x after_step x {encrypt, decrypt} (quick: rounds 0, 1, 7, 14, 15 '
                'for all behaviours and all 16 rounds for one behaviour per key length), master and pre-expanded keys')
    chk.assumptions += ['2^64 blocks / keys are sampled; S-box inputs are exhaustive; bit permutations are checked on a basis (all unit vectors) plus all-ones and random vectors',
                        'the meaning of each step view follows the Steps documentation (see DESIGN Appendix B)']
    cases, grid = des_inputs(rng, nkeys, nblocks)
    beh = run_machine(chk, cases, f'MC+GEN:{len(cases)} behaviours x (encrypt + decrypt)')
    full_done = set()
    for ci, c in enumerate(cases):
        nk = len(c['keys'])
        full = (not q) or nk not in full_done
        full_done.add(nk)
        rounds = list(range(16)) if full else [0, 1, 7, 14, 15]
        all_stops(chk, cases, beh, ci, rounds, False, ['uint8', 'int16', 'int64', '>u2', '>i8'][ci % 5])
        if ci % 2 == 0:
            all_stops(chk, cases, beh, ci, rounds if full else [0, 15], True, 'uint8')
    shapes(chk, cases, grid, beh, rng, nkeys, nblocks)
    caller_owned(chk, cases, beh)
    large_batches(chk, cases, beh, [16, 32, 48, 2 ** 16 + 37] if q else [16, 32, 48, 6, 2 ** 16 - 3, 2 ** 16 + 37, 2 ** 17 + 1])      # 16 / 32 / 48 master keys: as many bytes as one / two / three pre-expanded keys
    primitives(chk, rng)
    from .. import apirules
    apirules.run(chk, 'des_stop', 'C06')
    chk.sample({'keys': cases[2]['keys'], 'block': cases[2]['block'], 'round0_views': beh[2]['enc'][0]})


def replay(chk, path):
    import scared
    rp = json.load(open(path))
    if rp.get('part') in ('stop', 'full') and not rp.get('expanded'):
        f = scared.des.encrypt if rp['mode'] == 'encrypt' else scared.des.decrypt
        kw = {} if rp['part'] == 'full' else {'at_des': rp['at_des'], 'at_round': rp['at_round'], 'after_step': rp['after_step']}
        got = f(np.array(rp['block'], dtype='uint8'), np.array([b for k in rp['keys'] for b in k], dtype='uint8'), **kw).tolist()
        print('got', got, 'expected', rp['expected'])
        if got != rp['expected']:
            print(f'VIOLATION property=C06 replay={path}')
            return 1
        return 0
    print('re-run ./check C06')
    return 0
