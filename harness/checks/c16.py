"""C16 - a rejected update leaves a distinguisher exactly as it was.

(M) specs/DistinguisherK.tla models update()'s statement order: the repaired order satisfies C16 on every call
    sequence; the pinned upstream order must be refuted by TLC (model sensitivity).  specs/Distinguisher.tla
    explores every history with rejected calls inserted at any position (P: RejectPure).
(G) every such history is replayed on the real objects: each fault is really refused, state/count unchanged,
    later results those of the accepted batches only, refused first call does not block a later valid call.
(V) random executions with injected faults recorded and validated by TLC.
"""
import json
import random

import numpy as np

from .. import disthist as dh
from .. import tlc
from ..dist import memoise_lut

ANY, INITED, FIRST = 'any', 'inited', 'first'


def F(name, when):
    return {'name': name, 'when': when}


def faults_for(kind, auto=False):
    f = [F('traces_not_ndarray', ANY), F('data_not_ndarray', ANY), F('row_count', ANY)]
    if kind == 'ttest':
        return [F('traces_not_ndarray', ANY)]
    if kind in ('cpa', 'dpa', 'part', 'mia', 'tplb', 'tplm', 'tpld'):
        f.append(F('trace_len', INITED))
        f.append(F('traces_ndim', ANY))               # traces that are not a (traces, samples) matrix: 3-D or 1-D
    if kind in ('cpa', 'dpa', 'part', 'mia'):
        f.append(F('traces_not_numeric', ANY))        # an array of strings where samples are expected: the conversion to the precision fails
    if kind in ('cpa', 'dpa', 'part', 'mia', 'tpld'):
        f.append(F('word_count', INITED))
    if kind == 'dpa':
        f += [F('dpa_nonbinary', FIRST), F('dpa_float_data', FIRST), F('dpa_wide_int_data', ANY)]      # 0/1 selectors carried by int64 / int8 / bool: refused by the in-place add into the unsigned counters
    if kind in ('part', 'mia', 'tplb'):
        f.append(F('class_float_data', ANY))          # refused by the class lookup inside _update, also as very first call (after _initialize)
    if kind in ('part', 'mia'):
        f.append(F('traces_kernel_refused', ANY))     # a trace dtype the compiled accumulation kernel has no version for: refused by the kernel call itself, after every Python-level guard
    if kind == 'tplb':
        f.append(F('tpl_two_words', ANY))
    if kind in ('tplm', 'tpld'):
        f.append(F('match_wrong_trace_size', FIRST))
    if kind == 'tpld':
        f.append(F('tpld_undeclared_value', ANY))     # a hypothesis value that is no declared class: refused by the template lookup, after the first-call initialisation
    if auto:
        f += [F('auto_max_gt_255', FIRST), F('auto_negative', FIRST)]
    return f


def inject(ad, fault, rows, pos):
    """Make the call the fault describes on the real object; True iff it raised."""
    c = ad.c
    name = fault['name']
    k = 2
    base = rows[:k] if len(rows) >= k else rows
    t, d = ad.arrays(base)
    if name == 'traces_not_ndarray':
        args = (t.tolist(), d)
    elif name == 'data_not_ndarray':
        args = (t, d.tolist())
    elif name == 'row_count':
        args = (t, np.concatenate([d, d[:1]], axis=0))
    elif name == 'trace_len':
        args = (np.concatenate([t, t[:, :1]], axis=1), d)
    elif name == 'word_count':
        d2 = d.reshape(d.shape[0], -1)
        args = (t, np.concatenate([d2, d2[:, :1]], axis=1))
    elif name == 'dpa_nonbinary':
        d2 = d.copy()
        d2.flat[0] = 2
        args = (t, d2)
    elif name == 'dpa_wide_int_data':
        args = (t, d.astype(['int64', 'int8', 'bool'][pos % 3]))
    elif name == 'dpa_float_data':
        args = (t, d.astype('float64'))
    elif name == 'class_float_data':
        args = (t, (d % 8).astype('float64'))          # small values: a class set derived from THIS batch would be the 9-class one
    elif name == 'traces_not_numeric':
        args = (np.full(t.shape, 'n/a'), d)
    elif name == 'traces_ndim':
        args = (np.stack([t, t], axis=2), d) if pos % 2 == 0 else (t[:, 0].copy(), d)
    elif name == 'traces_kernel_refused':
        args = (t.astype(['float16', '>i2', '>f4'][pos % 3]), d)
    elif name == 'tpl_two_words':
        args = (t, np.concatenate([d, d], axis=1))
    elif name == 'tpld_undeclared_value':
        d2 = d.astype('int32').copy()
        d2.flat[-1] = 77
        args = (t, d2)
    elif name == 'match_wrong_trace_size':
        args = (np.concatenate([t, t[:, :1]], axis=1), d)
    elif name == 'auto_max_gt_255':
        d2 = d.astype('uint16').copy()
        d2.flat[0] = 300
        args = (t, d2)
    elif name == 'auto_negative':
        d2 = d.astype('int16').copy()
        d2.flat[0] = -1
        args = (t, d2)
    else:
        raise ValueError(name)
    try:
        if ad.kind == 'ttest':
            ad.o.update(args[0])
        else:
            ad.o.update(*args)
    except Exception:
        return True
    return False


def make_cases(rng, tier):
    n = 3 if tier == 'quick' else 4
    cs = []

    def add(label, c, subs=(None,), tmin=0, tmax=15, combos=(), auto=False, dvals=None):
        rows = dh.random_rows(rng, c, n, tmax=tmax, tmin=tmin, dvals=dvals)
        cs.append({'label': label, 'c': c, 'rows': rows, 'faults': faults_for(c['kind'], auto), 'subs': list(subs), 'combos': list(combos), 'auto': auto, 'dvals': dvals})
    two = [('float32', 'u8'), ('float64', 'f64q')]
    add('cpa', dh.base_cfg('cpa', S=2, W=2), subs=('std', 'alt'), combos=two)
    add('cpa-one-word', dh.base_cfg('cpa', S=2, W=1), subs=('std',), combos=two[:1])      # length-1 accumulators: a longer batch broadcasts against them instead of failing
    add('dpa-one-word-one-sample', dh.base_cfg('dpa', S=1, W=1), combos=two[1:])
    add('dpa', dh.base_cfg('dpa', S=2, W=2), combos=two)
    add('part', dh.base_cfg('part', S=2, W=2, classes=(0, 1, 2)), subs=('anova', 'snr') if tier == 'quick' else ('anova', 'nicv', 'snr'), combos=[('float32', 'i16')])
    add('part-auto', dh.base_cfg('part', S=1, W=1, classes=tuple(range(9))), subs=('nicv',), combos=[('float32', 'i16')], auto=True, dvals=list(range(9)))
    add('part-auto64', dh.base_cfg('part', S=1, W=1, classes=tuple(range(64))), subs=('anova',), combos=[('float64', 'u8')], auto=True, dvals=[20, 41, 63, 10, 33])
    add('mia-auto64', dh.base_cfg('mia', S=1, W=1, classes=tuple(range(64)), lo=0, width=4, nb=4), tmax=16, combos=[('uint32', 'u8')], auto=True, dvals=[20, 41, 63, 10, 33])
    add('mia', dh.base_cfg('mia', S=2, W=1, classes=(0, 1, 2), lo=0, width=4, nb=4), tmax=16, combos=[('uint32', 'u8')])
    add('tplb', dh.base_cfg('tplb', S=2, W=1, classes=(0, 1, 2)), combos=[('float32', 'u8')])
    add('tplm', dh.base_cfg('tplm', S=2, W=1, classes=(0, 1), tpl=[[1, 2], [3, 1]], ainv=[[2, 1], [1, 3]]), tmax=9, combos=two)
    add('tpld', dh.base_cfg('tpld', S=2, W=3, classes=(0, 1, 2), tpl=[[1, 2], [3, 1], [0, 2]], ainv=[[2, 1], [1, 3]]), tmax=9, combos=two)
    add('ttest', dh.base_cfg('ttest', S=3, W=1), combos=two)
    return cs


def tlc_case(case):
    return {'c': case['c'], 'rows': case['rows'], 'faults': case['faults']}


def kmodel(chk):
    """(M) mechanism model of update(): repaired order must satisfy C16, pinned order must be refuted."""
    calls = 4 if chk.tier == 'quick' else 6
    cfgt = ('SPECIFICATION Spec\nCONSTANTS Variant = "{v}"\n MaxCalls = {c}\n MaxK = 2\nINVARIANT RejectedLeavesNoTrace\n'
            'INVARIANT AcceptedAccumulates\nINVARIANT ValidCallAccepted\nINVARIANT FaultyCallRaises\nINVARIANT CountEqualsAccumulated\nCHECK_DEADLOCK FALSE\n')
    r = tlc.run('DistinguisherK', cfg_text=cfgt.format(v='fixed', c=calls), workers=4, coverage=True)
    chk.add_tlc('K:update-step-order(fixed)', r)
    if r.violated:
        raise tlc.TLCError('DistinguisherK (fixed variant) violates ' + str(r.violated))
    dead = [a for a in ('Begin', 'TypeCheck', 'MarkShape', 'Initialize', 'Check', 'Count', 'Update', 'Done') if r.coverage.get(a, (0, 0))[1] == 0]
    if dead:
        raise tlc.TLCError(f'vacuity: actions never taken in DistinguisherK: {dead}')
    r2 = tlc.run('DistinguisherK', cfg_text=cfgt.format(v='pinned', c=calls), workers=1)
    chk.add_tlc('K:update-step-order(pinned, must be refuted)', r2)
    if not r2.violated:
        raise tlc.TLCError('DistinguisherK lost sensitivity: the pinned step order is no longer refuted')
    r3 = tlc.run('DistinguisherK', cfg_text=cfgt.format(v='marker', c=calls), workers=1)
    chk.add_tlc('K:update-step-order(marker-only rollback, must be refuted)', r3)
    if not r3.violated:
        raise tlc.TLCError('DistinguisherK lost sensitivity: rolling back only the marker (derived class set left behind) is no longer refuted')
    chk.extra['k_model'] = {'fixed': 'all invariants hold', 'pinned_refuted_by': r2.violated, 'marker_only_refuted_by': r3.violated}


def run(chk):
    memoise_lut()
    import numba
    numba.set_num_threads(2)      # tiny arrays: thread fan-out only burns CPU here (C11 varies the thread count)
    rng = random.Random(chk.seed)
    tier = chk.tier
    kmodel(chk)
    cases = make_cases(rng, tier)
    maxb, maxc, maxr = (3, 1, 2) if tier == 'quick' else (3, 1, 3)
    chk.rule = ('TLC enumerates every history over {update(k), compute, reject(fault kind)} with <= MaxRejects rejected calls at any position '
                '(incl. first call; fault kinds applicable by state: any / only after a first accepted batch / only as first call); '
                'one evaluation = one history replayed on one real object; non-trivial = history containing >= 1 reject followed by >= 1 accepted update or compute')
    chk.assumptions += ['psutil memory-estimate rejection is not injected', 't-test accumulator: only the type fault (a wrong trace length is not detected by the code and would write out of bounds)',
                        'a fault is "really refused" iff the public call raises any Exception']
    tcases = [tlc_case(c) for c in cases]
    dh.explore(chk, tcases, maxb, maxc, 2, 'histories-with-rejects')
    if tier == 'quick':
        # every history with ONE rejected call for every case; histories with two rejected calls for three representative cases
        hists = dh.generate(chk, tcases, maxb, maxc, 1, 'histories-with-one-reject')
        two = [i for i, c in enumerate(cases) if c['label'] in ('cpa', 'part-auto64', 'tplb')]
        h2 = dh.generate(chk, [tcases[i] for i in two], maxb, maxc, 2, 'histories-with-two-rejects')
        hists += [(two[ci], h) for ci, h in h2 if sum(1 for e in h if e['op'] == 'reject') == 2]
    else:
        # every history with up to TWO rejected calls for every case; three rejected calls (<= 2 accepted batches) for one representative case
        hists = dh.generate(chk, tcases, maxb, maxc, 2, 'histories-with-two-rejects')
        three = [i for i, c in enumerate(cases) if c['label'] in ('cpa',)]
        h3 = dh.generate(chk, [tcases[i] for i in three], 2, maxc, 3, 'histories-with-three-rejects (<= 2 accepted batches)')
        hists += [(three[ci], h) for ci, h in h3 if sum(1 for e in h if e['op'] == 'reject') == 3]
    hists = [(ci, h) for ci, h in hists if any(e['op'] == 'reject' for e in h)]
    # TLC enumerates every history; the replay takes, for every (case, sequence of fault kinds, position of the first rejected call), a seeded
    # sample of the histories of that class (quick: 3, thorough: 4; 1 for the three-reject classes) - the classes are all covered, the accepted batch sizes around them are sampled
    per = 3 if tier == 'quick' else 4
    r2 = random.Random(chk.seed + 1)
    by = {}
    for ci, h in hists:
        key = (ci, tuple((e['op'], e['k']) for e in h if e['op'] == 'reject'), next((i for i, e in enumerate(h) if e['op'] == 'reject'), -1))
        by.setdefault(key, []).append(h)
    chk.extra['history_classes'] = len(by)
    chk.extra['histories_enumerated_with_rejects'] = len(hists)
    hists = []
    for key, hs in sorted(by.items()):
        r2.shuffle(hs)
        hists += [(key[0], h) for h in hs[:(1 if len(key[1]) >= 3 else per)]]
    for ci, h in hists:
        case = cases[ci]
        first_rej = next(i for i, e in enumerate(h) if e['op'] == 'reject')
        nontrivial = any(e['op'] in ('update', 'compute') for e in h[first_rej + 1:])
        for sub in case['subs']:
            for prec, pres in case['combos']:
                bad, res, ad = dh.replay(case, h, prec, pres, sub=sub, fault_fn=inject, auto=case['auto'])
                chk.count((ci, [(e['op'], e['k']) for e in h], prec, pres, sub), nontrivial=nontrivial)
                chk.traces_validated += 1
                if not bad and h[-1]['op'] == 'compute' and h[-1]['n'] == len(case['rows']):
                    ref = dh.one_shot(case, prec, pres, sub=sub)
                    if not dh.same_bits(res, ref):
                        bad.append({'clause': 'every later result is that of the accepted batches only', 'got': dh._tolist(res), 'expected': dh._tolist(ref)})
                if bad:
                    fa = bad[0].get('fault') or (bad[0].get('after_fault') or bad[0].get('fault_before') or ['?'])[-1]
                    sig = f'{case["c"]["kind"]}:{fa}:{bad[0]["clause"]}'
                    chk.violation(sig, {'property': 'C16', 'case': tlc_case(case), 'auto': case['auto'], 'label': case['label'], 'history': h,
                                        'precision': prec, 'presentation': pres, 'variant': sub, 'disagreements': bad},
                                  f'{case["label"]} {prec}/{pres}/{sub}: {bad[0]["clause"]} (fault {fa})')
        if len(chk.samples) < 5 and nontrivial:
            chk.sample({'kind': case['c']['kind'], 'history': [(e['op'], case['faults'][e['k'] - 1]['name'] if e['op'] == 'reject' else e['k']) for e in h]})
    recorded(chk, rng, cases)
    analysis_level(chk, rng)


def recorded(chk, rng, cases):
    """(V) random executions with faults injected at random points, validated by TLC (reject events must leave the
    logged state equal to the specification state)."""
    ntr = 40 if chk.tier == 'quick' else 400
    traces, meta = [], []
    for i in range(ntr):
        case = cases[i % len(cases)]
        c = case['c']
        rows = dh.random_rows(rng, c, rng.randint(3, 12), tmax=15, dvals=case.get('dvals') or (list(range(9)) if case['auto'] else None))
        prec, pres = case['combos'][i % len(case['combos'])]
        sub = case['subs'][i % len(case['subs'])]
        from ..dist import Adapter
        ad = Adapter(c, prec, pres, sub=sub, partitions_auto=case['auto'])
        ev, pos = [], 0

        def log(op, extra=None):
            e = {'op': op, 'acc': ad.projection(), 'n': ad.n(), 'inited': ad.inited()}
            if extra:
                e.update(extra)
            ev.append(e)
        try:
            while pos < len(rows):
                if rng.random() < 0.5:
                    ok = [f for f in case['faults'] if f['when'] == ANY or (f['when'] == INITED and ad.inited()) or (f['when'] == FIRST and not ad.inited())]
                    f = rng.choice(ok)
                    raised = inject(ad, f, rows, pos)
                    log('reject' if raised else 'update', {'fault': f['name'], 'rows': []})
                if rng.random() < 0.3:
                    try:
                        ad.compute()
                        log('compute')
                    except Exception:
                        log('compute_refused')
                k = rng.randint(1, len(rows) - pos)
                ad.update(rows[pos:pos + k])
                log('update', {'rows': rows[pos:pos + k]})
                pos += k
            ad.compute()
            log('compute')
        except Exception as ex:
            chk.violation(f'{c["kind"]}:{ev[-1].get("fault", "?") if ev else "?"}:valid call after a rejected call must not raise',
                          {'property': 'C16', 'c': c, 'rows': rows, 'events': [(e['op'], e.get('fault')) for e in ev], 'error': f'{type(ex).__name__}: {ex}'[:300]},
                          f'{case["label"]}: valid call raised {type(ex).__name__} after {[(e["op"], e.get("fault")) for e in ev][-2:]}')
            continue
        traces.append({'c': c, 'ev': ev})
        meta.append((case['label'], prec, pres, sub))
    accepted, r = dh.validate_traces(chk, traces, 'recorded-with-faults')
    for i, tr in enumerate(traces, 1):
        chk.count(('V', i), nontrivial=any(e['op'] == 'reject' for e in tr['ev']))
        chk.traces_validated += 1
        if i not in accepted:
            at = dh.diagnose_trace(tr)
            e = tr['ev'][at] if at < len(tr['ev']) else {}
            chk.violation(f'{tr["c"]["kind"]}:{e.get("fault", "?")}:recorded execution with rejects is a behaviour of the specification',
                          {'property': 'C16', 'trace': tr, 'meta': meta[i - 1], 'matched_prefix': at, 'next_event': e},
                          f'{meta[i - 1]}: trace rejected by TLC at event {at} ({e.get("op")}, fault {e.get("fault")})')
    chk.extra['recorded_traces'] = len(traces)
    chk.extra['recorded_traces_accepted'] = len(accepted)


def analysis_level(chk, rng):
    """rejections met through Analysis.run / process: a container whose traces have another length, a batch whose preprocess
    raises in the middle of a container, metadata the selection function cannot use - before any accepted batch, between accepted
    containers, and in the middle of one.  Afterwards: count and results are those of the accepted batches only."""
    import scared
    from .. import pipeline as pl
    old = scared.Container._BATCH_SIZE
    kinds = ['CPA', 'DPA', 'ANOVA', 'MIA'] if chk.tier == 'quick' else pl.KINDS
    try:
        for ki, kind in enumerate(kinds):
            for mode in ('attack', 'reverse'):
                for scenario in ('bad-first', 'bad-between', 'bad-mid-container', 'bad-metadata-first'):
                    prec = 'float64' if (ki + len(scenario)) % 2 else 'float32'
                    rs = np.random.RandomState(chk.seed % 1000 + ki * 17 + len(scenario))
                    a, mk = pl.build(kind, mode, prec, convergence_step=(7 if (mode == 'attack' and scenario != 'bad-first') else None))
                    pp = pl.preprocesses()
                    bs = int(rs.randint(2, 5))
                    scared.set_batch_size(bs)
                    n1, n2 = int(rs.randint(3, 9)), 9 + int(rs.randint(0, 5))          # at least two batches of >= 2 traces whatever the effective batch size (<= 7 with the convergence step)
                    ths1, s1, v1, _ = pl.make_set(rs, n1, 6, 2, 0)
                    ths2, s2, v2, _ = pl.make_set(rs, n2, 6, 2, n1)
                    good1, good2 = scared.Container(ths1), scared.Container(ths2)
                    short = scared.Container(ths2, frame=slice(0, 4))                    # other trace length
                    calls = {'real': []}

                    @scared.preprocess
                    def boom(traces):
                        if len(traces) >= 2:                                              # a batch (the trace-size probe reads a single trace)
                            calls['real'].append(len(traces))
                            if len(calls['real']) == 2:
                                raise ValueError('preprocess failure in the second batch')
                        return traces
                    mid = scared.Container(ths2, preprocesses=[boom])
                    @scared.preprocess
                    def boom1(traces):
                        if len(traces) >= 2:                                              # the first batch (the trace-size probe reads a single trace)
                            raise ValueError('preprocess failure in the first batch')
                        return traces
                    first_fail = scared.Container(ths2, preprocesses=[boom1])
                    nometa = scared.Container(scared.traces.read_ths_from_ram(samples=s2, other=v2))
                    accepted = []          # (samples, v, row indices)
                    steps = {'bad-first': [('bad', first_fail), ('ok', good1, s1, v1, n1), ('bad', short), ('ok', good2, s2, v2, n2)],
                             'bad-between': [('ok', good1, s1, v1, n1), ('bad', short), ('ok', good2, s2, v2, n2)],
                             'bad-mid-container': [('ok', good1, s1, v1, n1), ('mid', mid, s2, v2, min(bs, n2)), ('ok', good1, s1, v1, n1)],
                             'bad-metadata-first': [('bad', nometa), ('ok', good2, s2, v2, n2)]}[scenario]
                    bad = None
                    def outputs():
                        conv = getattr(a, 'convergence_traces', None)
                        return (None if a.results is None else np.array(a.results, copy=True), None if getattr(a, 'scores', None) is None else np.array(a.scores, copy=True),
                                None if conv is None else np.array(conv, copy=True))

                    def same(x, y):
                        return all((p is None and q is None) or (p is not None and q is not None and p.shape == q.shape and np.array_equal(p, q, equal_nan=True)) for p, q in zip(x, y))
                    for st_ in steps:
                        before = int(a.processed_traces)
                        out_before = outputs()
                        try:
                            a.run(st_[1])
                            raised = False
                        except Exception as ex:           # noqa
                            raised = True
                        if raised and st_[0] == 'bad' and not same(out_before, outputs()):
                            bad = 'a refused run leaves results, scores and convergence traces as they were'
                            break
                        if st_[0] == 'ok':
                            if raised:
                                bad = 'a valid run after a rejected one is accepted'
                                break
                            accepted.append((st_[2], st_[3], np.arange(st_[4])))
                        elif st_[0] == 'bad':
                            if not raised:
                                bad = 'the faulty container is refused'
                                break
                            if int(a.processed_traces) != before:
                                bad = 'a refused batch is not counted'
                                break
                        else:
                            if not raised:
                                bad = 'the failing batch makes run() raise'
                                break
                            accepted.append((st_[2], st_[3], np.arange(calls['real'][0])))   # the batch before the failing one was accepted (its size is the mechanism's business)
                    chk.count(('A', kind, mode, scenario, prec), nontrivial=True)
                    chk.traces_validated += 1
                    if not bad:
                        want_n = sum(len(ix) for _, _, ix in accepted)
                        if int(a.processed_traces) != want_n:
                            bad = f'processed-trace count is that of the accepted batches only ({int(a.processed_traces)} vs {want_n})'
                    if not bad and accepted:
                        one = mk()
                        xs = [pl.expected_arrays(a, s_, v_, ix, 'all', [], pp) for s_, v_, ix in accepted]
                        one.update(np.concatenate([x for x, _ in xs]), np.concatenate([d for _, d in xs]))
                        ref = np.asarray(one.compute())
                        a.compute_results()
                        if not np.array_equal(np.asarray(a.results), ref, equal_nan=True):
                            bad = 'every later result is that of the accepted batches only'
                    if bad:
                        chk.violation(f'analysis:{kind}{mode}:{scenario}:{bad.split(" (")[0]}', {'property': 'C16', 'part': 'analysis', 'kind': kind, 'mode': mode, 'scenario': scenario, 'precision': prec, 'batch_size': bs,
                                                                                               'sizes': [n1, n2], 'clause': bad}, f'{kind}{mode} {scenario}: {bad}')
        # a single batch of exactly 2^14 (and 2^15) traces through process / run: a valid batch is accepted whatever its size; were it refused, nothing of it may be counted
        for nbig in (16384, 32768):
            for kind in ('CPA', 'SNR'):
                a, mk = pl.build(kind, 'attack', 'float32')
                rs = np.random.RandomState(nbig % 1000 + len(kind))
                ths, s_, v_, _ = pl.make_set(rs, nbig, 6, 2, 0)
                scared.set_batch_size(nbig)
                chk.count(('A', kind, 'attack', f'one batch of {nbig}', 'float32'), nontrivial=True)
                chk.traces_validated += 1
                before = int(a.processed_traces)
                try:
                    a.run(scared.Container(ths))
                    if int(a.processed_traces) != nbig:
                        chk.violation(f'analysis:{kind}attack:one batch of {nbig} traces:processed-trace count is that of the accepted batches only', {'property': 'C16', 'part': 'analysis', 'kind': kind, 'mode': 'attack', 'scenario': f'one batch of {nbig}', 'processed': int(a.processed_traces)},
                                      f'{kind} attack, one batch of {nbig} traces: {int(a.processed_traces)} traces counted')
                except Exception as ex:       # noqa
                    if int(a.processed_traces) != before:
                        chk.violation(f'analysis:{kind}attack:one batch of {nbig} traces:a refused batch is not counted', {'property': 'C16', 'part': 'analysis', 'kind': kind, 'mode': 'attack', 'scenario': f'one batch of {nbig}', 'error': repr(ex)[:200],
                                                                                                                        'processed': int(a.processed_traces)}, f'{kind} attack: run() on one batch of {nbig} traces raised {type(ex).__name__} with {int(a.processed_traces)} traces counted')
                    else:
                        chk.violation(f'analysis:{kind}attack:one batch of {nbig} traces:a valid run is accepted', {'property': 'C16', 'part': 'analysis', 'kind': kind, 'mode': 'attack', 'scenario': f'one batch of {nbig}', 'error': repr(ex)[:200]},
                                      f'{kind} attack: run() on one valid batch of {nbig} traces raised {type(ex).__name__}')
        chk.sample({'analysis_level_scenarios': ['bad-first', 'bad-between', 'bad-mid-container', 'bad-metadata-first']})
    finally:
        scared.Container._BATCH_SIZE = old


def replay(chk, path):
    memoise_lut()
    rp = json.load(open(path))
    if 'history' not in rp:
        print('replay file does not hold a history case')
        return 2
    bad, res, ad = dh.replay(rp['case'], rp['history'], rp['precision'], rp['presentation'], sub=rp['variant'], fault_fn=inject, auto=rp.get('auto', False))
    print('disagreements:', bad)
    if bad:
        print(f'VIOLATION property=C16 replay={path}')
        return 1
    return 0
