"""C01 - incremental distinguishers are invariant to how traces are split into batches; compute is pure/repeatable.

(M) TLC explores every history (ordered partition x compute placements) over the driver-proposed cases and checks
    that the accumulated state is a function of the consumed prefix (specs/Distinguisher.tla).
(G) every history is replayed on the real objects (all ten kinds + t-test accumulator, both precisions, several
    dtypes): projection == spec state after EVERY call, compute is bit-pure and repeatable, final result is
    bit-identical to a fresh object fed once.
(V) random longer executions of the real objects are recorded and validated by TLC (specs/DistinguisherTrace.tla).
"""
import random

import numpy as np

from .. import disthist as dh
from ..dist import memoise_lut, close

KINDS = {
    # label: (cfg kwargs, subs, value range (tmin, tmax), [(precision, presentation)] quick, thorough)
}


def make_cases(rng, tier):
    n = 4 if tier == 'quick' else 5
    cs = []

    def add(label, c, subs=(None,), tmin=0, tmax=15, combos_q=(), combos_t=(), nrows=n, dvals=None):
        rows = dh.random_rows(rng, c, nrows, tmax=tmax, tmin=tmin, dvals=dvals)
        cs.append({'label': label, 'c': c, 'rows': rows, 'faults': [], 'subs': list(subs),
                   'combos': list(combos_q if tier == 'quick' else combos_t)})

    allp = [(p, q) for p in ('float32', 'float64') for q in ('u8', 'i16', 'f32q', 'f64q')]
    neg = [(p, q) for p in ('float32', 'float64') for q in ('i16', 'f32q', 'f64q')]
    add('cpa', dh.base_cfg('cpa', S=2, W=2), subs=('std', 'alt'), combos_q=allp, combos_t=allp)
    add('cpa-neg-wshape', dh.base_cfg('cpa', S=1, W=4, wshape=[2, 2]), subs=('std', 'alt'), tmin=-9, tmax=9, combos_q=neg[:2] + neg[4:5], combos_t=neg)
    add('cpa-single-row-batches', dh.base_cfg('cpa', S=3, W=1), subs=('std',), combos_q=allp[:1] + allp[7:], combos_t=allp)
    add('dpa', dh.base_cfg('dpa', S=2, W=2), combos_q=allp, combos_t=allp)
    add('dpa-wshape', dh.base_cfg('dpa', S=1, W=4, wshape=[2, 2]), tmin=-9, tmax=9, combos_q=neg[:1] + neg[5:], combos_t=neg)
    pq = [('float32', 'i16'), ('float64', 'f32q')]
    add('part', dh.base_cfg('part', S=2, W=2, classes=(0, 1, 2)), subs=('anova', 'nicv', 'snr'), tmin=-7, tmax=8, combos_q=pq, combos_t=neg)
    add('part-undeclared-values', dh.base_cfg('part', S=2, W=2, classes=(1, 2, 4)), subs=('anova', 'snr'), tmax=9, combos_q=pq, combos_t=neg, nrows=n + 1, dvals=[0, 1, 2, 3, 4, 7])
    add('part-10classes', dh.base_cfg('part', S=1, W=1, classes=tuple(range(10))), subs=('anova',), combos_q=pq[:1], combos_t=allp)
    mq = [('uint32', 'u8'), ('float32', 'f32q'), ('float64', 'i16')]
    mt = [(p, q) for p in ('uint32', 'float32', 'float64') for q in ('u8', 'i16', 'f32q', 'f64q')]
    add('mia', dh.base_cfg('mia', S=2, W=1, classes=(0, 1, 2), lo=0, width=4, nb=4), tmax=16, combos_q=mq, combos_t=mt)
    add('mia-2words', dh.base_cfg('mia', S=1, W=2, classes=(0, 1), lo=2, width=3, nb=3), tmax=13, combos_q=mq[:1], combos_t=mt)
    sat = dh.base_cfg('mia', S=1, W=1, classes=(0, 1, 2), lo=0, width=4, nb=4)
    cs.append({'label': 'mia-saturated', 'c': sat, 'rows': [{'t': [16], 'd': [0]}, {'t': [3], 'd': [1]}, {'t': [16], 'd': [2]}, {'t': [16], 'd': [1]}][:n + 0] + [{'t': [0], 'd': [0]}],
               'faults': [], 'subs': [None], 'combos': list(mq if tier == 'quick' else mt)})
    tq = [('float32', 'u8'), ('float64', 'f64q')]
    add('tplb', dh.base_cfg('tplb', S=2, W=1, classes=(0, 1, 2)), combos_q=tq, combos_t=allp)
    add('tplb-undeclared-values', dh.base_cfg('tplb', S=2, W=1, classes=(2, 1)), combos_q=tq, combos_t=allp, dvals=[0, 1, 2, 5])
    add('mia-undeclared-values', dh.base_cfg('mia', S=1, W=2, classes=(1, 3), lo=0, width=4, nb=3), tmax=14, combos_q=mq[:2], combos_t=mt, dvals=[0, 1, 2, 3, 9])
    add('tplm', dh.base_cfg('tplm', S=2, W=1, classes=(0, 1), tpl=[[1, 2], [3, 1]], ainv=[[2, 1], [1, 3]]), tmax=9, combos_q=allp, combos_t=allp)
    add('tpld', dh.base_cfg('tpld', S=2, W=3, classes=(0, 1, 2), tpl=[[1, 2], [3, 1], [0, 2]], ainv=[[2, 1], [1, 3]]), tmax=9, combos_q=allp, combos_t=allp)
    add('ttest', dh.base_cfg('ttest', S=3, W=1), combos_q=allp, combos_t=allp)
    add('ttest-neg', dh.base_cfg('ttest', S=2, W=1), tmin=-9, tmax=9, combos_q=neg[:2], combos_t=neg)
    # samples near the top of narrow integer types: their squares / products do not fit the type they arrive in
    hi8 = [('float64', 'u8'), ('float32', 'u8')]
    add('cpa-u8-high', dh.base_cfg('cpa', S=2, W=1), subs=('std',), tmin=200, tmax=255, combos_q=hi8[:1], combos_t=hi8, nrows=n - 1, dvals=[3, 200, 255])
    add('part-i8-high', dh.base_cfg('part', S=1, W=1, classes=(0, 1, 2)), subs=('snr',), tmin=-128, tmax=127, combos_q=[('float64', 'i8')], combos_t=[('float64', 'i8'), ('float32', 'i8')], nrows=n - 1)
    add('tplb-u8-high', dh.base_cfg('tplb', S=2, W=1, classes=(0, 1)), tmin=180, tmax=255, combos_q=hi8[1:], combos_t=hi8, nrows=n - 1)
    add('ttest-u8-high', dh.base_cfg('ttest', S=2, W=1), tmin=100, tmax=255, combos_q=hi8[:1], combos_t=hi8, nrows=n - 1)
    add('dpa-u8-high', dh.base_cfg('dpa', S=1, W=2), tmin=16, tmax=255, combos_q=hi8[1:], combos_t=hi8, nrows=n - 1)
    # every batch presented 401 times (odd: low bits survive): per-batch sums of squares and products beyond 2^24, with the requested precision float64
    add('cpa-u8-high-x401', dh.base_cfg('cpa', S=1, W=2), subs=('std',), tmin=201, tmax=255, combos_q=hi8[:1], combos_t=hi8[:1], nrows=n - 1, dvals=[201, 233, 255])
    cs[-1]['rep'] = 401
    add('dpa-u8-high-x401', dh.base_cfg('dpa', S=2, W=1), tmin=201, tmax=255, combos_q=hi8[:1], combos_t=hi8[:1], nrows=n - 1)
    cs[-1]['rep'] = 401
    return cs


def tlc_case(case):
    return {'c': case['c'], 'rows': case['rows'], 'faults': case['faults']}


def run(chk):
    memoise_lut()
    import numba
    numba.set_num_threads(2)      # tiny arrays: thread fan-out only burns CPU here (C11 varies the thread count)
    rng = random.Random(chk.seed)
    tier = chk.tier
    cases = make_cases(rng, tier)
    maxb = 4 if tier == 'quick' else 5
    chk.rule = ('case = (kind, configuration, dataset) proposed by the seeded driver; TLC enumerates every ordered partition of '
                'the dataset into <= MaxBatches non-empty batches x 0..2 compute calls at every point; one evaluation = one '
                'history replayed on one real object (precision x dtype presentation x variant); non-trivial = history with '
                '>= 2 batches or a compute before the last batch; distinct = distinct (case, history, precision, presentation, variant)')
    chk.assumptions += [
        'exact regime: integer-valued samples (also presented as m/4 floats) small enough that every sum is exactly representable; '
        'the harness asserts it per case',
        'harness memoises partitioned._define_lut_func per class list (numba JIT cost); the real builder runs once per class list',
        'inexact regime (random floats) is compared split-vs-one-shot within a forward-error envelope, not decided by TLC',
    ]
    tcases = [tlc_case(c) for c in cases]
    dh.explore(chk, tcases, maxb, 2, 0, 'histories')
    hists = dh.generate(chk, tcases, maxb, 2, 0, 'histories')
    if True:                 # subsample the compute placements deterministically (6 per split quick, 16 thorough), keep every split
        keep = []
        seen_split = {}
        r2 = random.Random(chk.seed + 1)
        for ci, h in hists:
            split = tuple(e['k'] for e in h if e['op'] == 'update')
            key = (ci, split)
            seen_split.setdefault(key, []).append(h)
        for (ci, split), hs in sorted(seen_split.items()):
            r2.shuffle(hs)
            for h in hs[:6 if tier == 'quick' else 16]:
                keep.append((ci, h))
        hists = keep
    oneshot_cache = {}
    for ci, h in hists:
        case = cases[ci]
        nupd = sum(1 for e in h if e['op'] == 'update')
        early_compute = any(e['op'] == 'compute' for e in h[:max(i for i, e in enumerate(h) if e['op'] == 'update')])
        for sub in case['subs']:
            for prec, pres in case['combos']:
                bad, res, ad = dh.replay(case, h, prec, pres, sub=sub)
                key = (ci, [(e['op'], e['k']) for e in h], prec, pres, sub)
                chk.count(key, nontrivial=(nupd >= 2 or early_compute))
                chk.traces_validated += 1
                if not bad and h and h[-1]['op'] == 'compute':
                    okey = (ci, prec, pres, sub)
                    if okey not in oneshot_cache:
                        oneshot_cache[okey] = dh.one_shot(case, prec, pres, sub=sub)
                    if not dh.same_bits(res, oneshot_cache[okey]):
                        bad.append({'clause': 'final result equals the result of a fresh object fed once (bit-identical in the exact regime)',
                                    'split': dh._tolist(res), 'one_shot': dh._tolist(oneshot_cache[okey])})
                if bad:
                    sig = f'{case["c"]["kind"]}:{bad[0]["clause"]}'
                    chk.violation(sig, {'property': 'C01', 'case': tlc_case(case), 'label': case['label'], 'history': h,
                                        'precision': prec, 'presentation': pres, 'variant': sub, 'disagreements': bad},
                                  f'{case["label"]} {prec}/{pres}/{sub}: {bad[0]["clause"]}')
        if len(chk.samples) < 4 and nupd >= 2:
            chk.sample({'kind': case['c']['kind'], 'rows': case['rows'], 'history': [(e['op'], e['k']) for e in h]})
    record_and_validate(chk, rng)
    inexact(chk, rng)


def record_and_validate(chk, rng):
    """(V) code -> spec: random executions on real objects, validated by TLC."""
    ntr = 60 if chk.tier == 'quick' else 600
    traces, meta = [], []
    kinds = [('cpa', dict(S=3, W=2), 255, [None, 'alt'], [('float32', 'u8'), ('float64', 'i16')]),
             ('dpa', dict(S=3, W=3), 255, [None], [('float32', 'u8'), ('float64', 'i16')]),
             ('part', dict(S=2, W=2, classes=(3, 0, 7, 300)), 200, ['anova', 'snr'], [('float32', 'i16'), ('float64', 'f32q')]),
             ('mia', dict(S=2, W=2, classes=(0, 1, 2, 3), lo=0, width=32, nb=8), 255, [None], [('uint32', 'u8'), ('float32', 'f32q')]),
             ('tplb', dict(S=3, W=1, classes=(0, 1, 2, 3)), 100, [None], [('float32', 'u8'), ('float64', 'f64q')]),
             ('tplm', dict(S=2, W=1, classes=(0, 1, 2), tpl=[[10, 20], [30, 10], [5, 5]], ainv=[[2, 1], [1, 3]]), 40, [None], [('float64', 'u8'), ('float32', 'i16')]),
             ('ttest', dict(S=4, W=1), 255, [None], [('float32', 'u8'), ('float64', 'i16')])]
    for i in range(ntr):
        kind, kw, tmax, subs, combos = kinds[i % len(kinds)]
        c = dh.base_cfg(kind, **kw)
        n = rng.randint(2, 24)
        rows = dh.random_rows(rng, c, n, tmax=tmax)
        prec, pres = combos[(i // len(kinds)) % len(combos)]
        sub = subs[(i // len(kinds)) % len(subs)]
        try:
            tr, ad = dh.record_trace(rng, c, rows, prec, pres, sub=sub)
        except ValueError as ex:
            chk.violation(f'{kind}:recorded accumulators are exact integer sums',
                          {'property': 'C01', 'c': c, 'rows': rows, 'precision': prec, 'presentation': pres, 'error': str(ex)},
                          f'{kind}: {ex}')
            continue
        if dh.max_int(tr) >= 2 ** 31:
            chk.extra['traces_skipped_int32'] = chk.extra.get('traces_skipped_int32', 0) + 1
            continue
        traces.append(tr)
        meta.append((kind, prec, pres, sub))
    accepted, r = dh.validate_traces(chk, traces, 'recorded')
    for i, tr in enumerate(traces, 1):
        chk.count(('V', i, meta[i - 1]), nontrivial=sum(1 for e in tr['ev'] if e['op'] == 'update') >= 2)
        chk.traces_validated += 1
        if i not in accepted:
            at = dh.diagnose_trace(tr)
            ev = tr['ev'][at] if at < len(tr['ev']) else None
            chk.violation(f'{meta[i - 1][0]}:recorded execution is a behaviour of the specification',
                          {'property': 'C01', 'trace': tr, 'meta': meta[i - 1], 'matched_prefix': at, 'next_event': ev},
                          f'{meta[i - 1]}: trace rejected by TLC at event {at} ({ev["op"] if ev else "?"})')
    chk.extra['recorded_traces'] = len(traces)
    chk.extra['recorded_traces_accepted'] = len(accepted)
    if traces:
        chk.sample({'recorded_trace_ops': [(e['op'], len(e.get('rows', []))) for e in traces[0]['ev']], 'kind': traces[0]['c']['kind']})


def inexact(chk, rng):
    """Inexact regime named by the quantifier (random float traces): split vs one-shot within a forward-error envelope
    c * n * eps * magnitude; supplementary (not decided by TLC)."""
    import scared
    nrep = 20 if chk.tier == 'quick' else 200
    r = np.random.RandomState(chk.seed % 2 ** 31)
    for i in range(nrep):
        n, S, W = int(r.randint(8, 60)), int(r.randint(1, 6)), int(r.randint(1, 4))
        off = [0.0, 100.0][i % 2]
        t = (r.randn(n, S) + off).astype(['float32', 'float64'][i % 2])
        d = r.randint(0, 9, (n, W)).astype('uint8')
        for prec in ('float32', 'float64'):
            eps = float(np.finfo(prec).eps)
            for cls in (scared.CPADistinguisher, scared.ANOVADistinguisher, scared.SNRDistinguisher, scared.NICVDistinguisher):
                kw = {'partitions': range(9)} if cls is not scared.CPADistinguisher else {}
                a, b = cls(precision=prec, **kw), cls(precision=prec, **kw)
                a.update(t, d)
                cuts = sorted(set(int(x) for x in r.randint(1, n, 3)))
                prev = 0
                for cpt in cuts + [n]:
                    if cpt > prev:
                        b.update(t[prev:cpt], d[prev:cpt])
                        prev = cpt
                # accumulators within the summation envelope
                pairs = [('ex2', 'ex2')] if cls is scared.CPADistinguisher else [('sum_square', 'sum_square')]
                for pa, pb in pairs:
                    x, y = np.asarray(getattr(a, pa), dtype='float64'), np.asarray(getattr(b, pb), dtype='float64')
                    env = 8 * n * eps * (np.abs(x).max() + 1)
                    chk.count(None, nontrivial=False)
                    if not np.all(np.abs(x - y) <= env):
                        chk.violation(f'{cls.__name__}:inexact split vs one-shot within envelope',
                                      {'property': 'C01', 'class': cls.__name__, 'n': n, 'cuts': cuts, 'precision': prec, 'max_diff': float(np.abs(x - y).max()), 'envelope': float(env),
                                       'seed': chk.seed, 'index': i}, f'{cls.__name__} {prec}: accumulators differ beyond rounding')
    chk.extra['inexact_regime_runs'] = nrep


def replay(chk, path):
    import json
    memoise_lut()
    rp = json.load(open(path))
    if 'history' not in rp:
        print('replay file does not hold a history case')
        return 2
    case = dict(rp['case'])
    bad, res, ad = dh.replay(case, rp['history'], rp['precision'], rp['presentation'], sub=rp['variant'])
    print('disagreements:', bad)
    if bad:
        print(f'VIOLATION property=C01 replay={path}')
        return 1
    return 0
