"""C08 - convergence traces are the attack scores on successive prefixes of the traces.

(M) specs/Analysis.tla (shared with C02), convergence part: for every trace-set size, convergence step, container batch
    size and 1..3 runs TLC checks: column positions strictly increasing, every column taken at a batch boundary where
    results and scores were freshly computed for exactly that many traces, in-loop points at least one step apart and the
    first at least one step from the start, a remainder column only as the last of its run, the last column at the total
    processed after every run, results/scores those of everything processed, no column without a step.
(G) each generated behaviour is executed on real attacks (CPA, DPA, ANOVA, NICV, SNR, MIA): the positions at which the
    code appended columns equal the specification's; every column is bit-identical to the scores of the standalone
    distinguisher fed once with exactly that prefix (exact regime); the last column equals the final scores; results and
    scores are bit-identical to the same run without convergence step.
"""
import json
import random

import numpy as np

from .. import pipeline as pl
from .. import tlc
from ..dist import memoise_lut
from . import c02


def execute(beh, kind, precision, seed):
    import scared
    a, rec, sets, mk = c02.execute(beh, kind, 'attack', precision, 'all', [], seed, step=int(beh['step']) if beh['step'] else None)
    return a, rec, sets, mk


def run_one(chk, beh, kind, prec, seed):
    import scared
    nclass = 2 if seed % 3 == 0 else 9            # two classes: with a handful of traces every class of a word is populated (nine: some stay empty)
    a, mk = pl.build(kind, 'attack', prec, convergence_step=int(beh['step']), nclass=nclass)
    rec = pl.Recorder(a)
    colpos = []
    cc0 = a._compute_convergence_traces

    def cc():
        r = cc0()
        colpos.append(int(a.processed_traces))
        return r
    a._compute_convergence_traces = cc
    rs = np.random.RandomState(seed)
    pp = pl.preprocesses()
    scared.set_batch_size(int(beh['base']))
    sets, id0 = [], 0
    conts = []
    for n in beh['ns']:
        ths, samples, v, ids = pl.make_set(rs, n, 6, 2, id0)
        id0 += n
        sets.append((samples, v, ids))
        conts.append(scared.Container(ths))
    for c in conts:
        a.run(c)
    want_pos = [c['at'] for c in beh['cols']]
    OBS.append(({'step': int(beh['step']), 'ends': [int(x) for x in np.cumsum(beh['ns'])], 'bounds': [int(x) for x in np.cumsum([len(ids) for ids, _, _ in rec.batches])],
                 'computes': list(rec.computes), 'cols': list(colpos)}, kind, beh))
    if colpos != want_pos or rec.computes != beh['computes']:
        # the code does not follow the mechanism model: the PROPERTY decides (specs/AnalysisTrace.tla judges the observed points)
        bounds = list(np.cumsum([len(ids) for ids, _, _ in rec.batches]).astype(int))
        obs = {'step': int(beh['step']), 'ends': [int(x) for x in np.cumsum(beh['ns'])], 'bounds': [int(x) for x in bounds], 'computes': rec.computes, 'cols': colpos}
        clause = judge_points(chk, obs)
        if clause != 'ok':
            return 'convergence ' + clause, {'got_positions': colpos, 'model_positions': want_pos, 'observation': obs}
        chk.drift += 1
        want_pos = colpos
    ncol = 0 if a.convergence_traces is None else a.convergence_traces.shape[-1]
    if ncol != len(want_pos):
        return 'one convergence column per convergence point', {'columns': ncol, 'points': len(want_pos)}
    alls = np.concatenate([s for s, _, _ in sets])
    allv = np.concatenate([v for _, v, _ in sets])
    for i, at in enumerate(want_pos):
        one = mk()
        xt, xd = pl.expected_arrays(a, alls, allv, np.arange(at), 'all', [], pp)
        one.update(xt, xd)
        sc = np.asarray(a.discriminant(np.asarray(one.compute())))
        col = np.asarray(a.convergence_traces[..., i])
        same = col.shape == sc.shape and (np.array_equal(col.astype('float64'), sc.astype('float64'), equal_nan=True) or
                                          (col.dtype.kind == 'f' and np.array_equal(col, sc.astype(col.dtype), equal_nan=True)))      # rounding to a FLOAT precision is allowed, truncation to integers is not
        if not same:
            return 'each column equals the scores of a fresh attack on exactly the traces processed up to that point', {'column': i, 'at': at, 'got': col.tolist(), 'fresh': sc.tolist()}
    lastc, fin = np.asarray(a.convergence_traces[..., -1]) if want_pos else None, np.asarray(a.scores)
    if want_pos and not (np.array_equal(lastc.astype('float64'), fin.astype('float64'), equal_nan=True) or (lastc.dtype.kind == 'f' and np.array_equal(lastc, fin.astype(lastc.dtype), equal_nan=True))):
        return 'the last column equals the final scores', {}
    # same run without convergence
    b, _ = pl.build(kind, 'attack', prec, convergence_step=None, nclass=nclass)
    for c in conts:
        b.run(c)
    if not np.array_equal(np.asarray(a.results), np.asarray(b.results), equal_nan=True) or not np.array_equal(np.asarray(a.scores), np.asarray(b.scores), equal_nan=True):
        return 'requesting convergence traces never changes the final results or scores', {}
    return None, {}


OBS = []


def judge_points(chk, obs):
    import os
    from .. import disthist as dh
    path = dh.write_json([obs])
    try:
        r = tlc.run('AnalysisTrace', cfg_text=tlc.cfg(invariants=['Verdict']), env={'TRACES': path}, workers=1, timeout=300)
    finally:
        os.unlink(path)
    chk.add_tlc('TRACE:observed convergence points judged by the property', r)
    return r.emits('VERDICT')[0]['clause']


def positions_only(chk, beh, kind, seed):
    """one behaviour on one cheap attack: only WHERE the columns are taken (judged by the property through AnalysisTrace in the final TLC run),
    their number, and the last column; the per-column comparison with a fresh attack is done on the sampled behaviours"""
    import scared
    a, mk = pl.build(kind, 'attack', 'float64', convergence_step=int(beh['step']))
    rec = pl.Recorder(a)
    colpos = []
    cc0 = a._compute_convergence_traces

    def cc():
        r = cc0()
        colpos.append(int(a.processed_traces))
        return r
    a._compute_convergence_traces = cc
    rs = np.random.RandomState(seed)
    scared.set_batch_size(int(beh['base']))
    id0 = 0
    for n in beh['ns']:
        ths, samples, v, ids = pl.make_set(rs, n, 6, 2, id0)
        id0 += n
        a.run(scared.Container(ths))
    OBS.append(({'step': int(beh['step']), 'ends': [int(x) for x in np.cumsum(beh['ns'])], 'bounds': [int(x) for x in np.cumsum([len(ids) for ids, _, _ in rec.batches])],
                 'computes': list(rec.computes), 'cols': list(colpos)}, kind, beh))
    if colpos != [c['at'] for c in beh['cols']] or rec.computes != beh['computes']:
        chk.drift += 1
    ncol = 0 if a.convergence_traces is None else a.convergence_traces.shape[-1]
    if ncol != len(colpos):
        return 'one convergence column per convergence point'
    if colpos and not np.array_equal(np.asarray(a.convergence_traces[..., -1]), np.asarray(a.scores), equal_nan=True):
        return 'the last column equals the final scores'
    return None


def template_convergence(chk, rng, n):
    """the template attacks with a convergence step: every column against a fresh attack (same profile) run on exactly that prefix"""
    import scared

    @scared.reverse_selection_function
    def rsf(v):
        return v

    @scared.attack_selection_function(guesses=range(3), words=0)
    def asf(h, guesses):
        return (h[:, :, None] + np.arange(3)[None, None, :]).swapaxes(1, 2)[:, :, :1] % 3
    for k in range(n):
        rs = np.random.RandomState(chk.seed % 1000 + 31 * k)
        nb_, nm = 12 + int(rs.randint(0, 6)), 7 + int(rs.randint(0, 8))
        tb = rs.randint(0, 12, (nb_, 2)).astype('int16')
        vb = (np.arange(nb_) % 3).astype('uint8').reshape(-1, 1)
        tm = rs.randint(0, 12, (nm, 2)).astype('int16')
        hm = rs.randint(0, 3, (nm, 1)).astype('uint8')
        bs, step = int(rs.randint(1, 4)), int(rs.randint(2, 6))
        scared.set_batch_size(bs)
        which = 'dpa' if k % 2 else 'static'

        def make(cstep):
            cb = scared.Container(scared.traces.read_ths_from_ram(samples=tb, v=vb))
            if which == 'static':
                a_ = scared.TemplateAttack(container_building=cb, reverse_selection_function=rsf, model=scared.Value(), partitions=np.arange(3), precision='float64', convergence_step=cstep)
            else:
                a_ = scared.TemplateDPAAttack(container_building=cb, reverse_selection_function=rsf, selection_function=asf, model=scared.Value(), partitions=np.arange(3), precision='float64', convergence_step=cstep)
            a_.build()
            return a_
        a = make(step)
        colpos = []
        cc0 = a._compute_convergence_traces

        def cc():
            r = cc0()
            colpos.append(int(a.processed_traces))
            return r
        a._compute_convergence_traces = cc
        a.run(scared.Container(scared.traces.read_ths_from_ram(samples=tm, h=hm)))
        chk.count(('tpl-conv', which, k), nontrivial=len(colpos) >= 2)
        chk.traces_validated += 1
        ctx = {'property': 'C08', 'part': 'template', 'which': which, 'batch_size': bs, 'step': step, 'matching_traces': nm, 'positions': colpos}
        bad = None
        ncol = 0 if a.convergence_traces is None else a.convergence_traces.shape[-1]
        if ncol != len(colpos) or not colpos or colpos[-1] != nm or any(y <= x for x, y in zip(colpos, colpos[1:])):
            bad = 'convergence points are strictly increasing and end at the total'
        else:
            for i, at in enumerate(colpos):
                f = make(None)
                f.run(scared.Container(scared.traces.read_ths_from_ram(samples=tm[:at], h=hm[:at])))
                col = np.asarray(a.convergence_traces[..., i], dtype='float64')
                if col.shape != np.asarray(f.scores).shape or not np.allclose(col, np.asarray(f.scores, dtype='float64'), rtol=1e-9, atol=1e-9, equal_nan=True):
                    bad = 'each column equals the scores of a fresh attack on exactly the traces processed up to that point'
                    ctx = dict(ctx, column=i, at=at, got=col.tolist(), fresh=np.asarray(f.scores).tolist())
                    break
            if not bad and not np.allclose(np.asarray(a.scores, dtype='float64'), np.asarray(f.scores, dtype='float64'), rtol=1e-9, atol=1e-9, equal_nan=True):
                bad = 'requesting convergence traces never changes the final results or scores'
        if bad:
            chk.violation(f'Template{which}:{bad}', dict(ctx, clause=bad), f'template {which} attack, batch {bs}, step {step}, {nm} matching traces: {bad}')


def run(chk):
    memoise_lut()
    import numba
    import scared
    numba.set_num_threads(2)
    rng = random.Random(chk.seed)
    q = chk.tier == 'quick'
    chk.rule = ('TLC enumerates every (run sizes, container batch size, convergence step) within the bound with the complete list of convergence points; a seeded subset is executed on '
                'real attacks of six classes; one evaluation = one behaviour on one attack (positions, every column vs fresh prefix scores, last column, with/without convergence); '
                'non-trivial = at least two convergence points or two runs')
    chk.assumptions += ['integer samples (exact regime): columns must be bit-identical to the fresh prefix scores',
                        '"at least one step apart (except a final remainder)" is read per run: in-loop points are >= step apart; a remainder point is the last of its run (see DESIGN 6/C08)']
    c02.model(chk, 9 if q else 14, 10 if q else 16, 11 if q else 16, 2 if q else 3)
    behs = [b for b in c02.generate(chk, 7 if q else 9, 6 if q else 8, 8 if q else 10, 2, 'convergence behaviours') if b['step'] > 0]
    rng.shuffle(behs)
    longb = [b for b in c02.generate(chk, 26 if q else 40, 3 if q else 4, 8 if q else 10, 1, 'long single runs (several steps)') if b['step'] > 0 and b['ns'][0] >= 3 * b['step'] and b['step'] % b['bs'] != 0]
    rng.shuffle(longb)
    behs = [x for pair in zip(longb, behs) for x in pair] + behs
    old = scared.Container._BATCH_SIZE
    try:
        kinds = ['CPA', 'DPA', 'SNR', 'MIA'] if q else pl.KINDS
        per = 18 if q else 80
        nb = 0
        for kind in kinds:
            for j in range(per):
                beh = behs[(nb * 7919) % len(behs)]
                nb += 1
                prec = 'float64' if nb % 2 else 'float32'
                if kind == 'MIA' and nb % 3 == 0:
                    prec = 'uint32'           # the integer accumulator type MIA accepts (and defaults to as a standalone distinguisher)
                bad, info = run_one(chk, beh, kind, prec, chk.seed + nb)
                chk.count((kind, json.dumps(beh, sort_keys=True), prec), nontrivial=len(beh['cols']) >= 2 or len(beh['ns']) >= 2)
                chk.traces_validated += 1
                if bad:
                    chk.violation(f'{kind}:{bad}', dict(info, property='C08', behaviour=beh, kind=kind, precision=prec, seed=chk.seed + nb, clause=bad),
                                  f'{kind} ns={beh["ns"]} base={beh["base"]} step={beh["step"]}: {bad}')
                if len(chk.samples) < 3 and len(beh['cols']) >= 3:
                    chk.sample({'ns': beh['ns'], 'batch_size': beh['base'], 'step': beh['step'], 'effective_batch': beh['bs'], 'points': beh['cols']})
        # every generated behaviour (not a sample) on a cheap attack: where the columns are taken, judged by the property below
        allb = [b for b in behs if b['step'] > 0]
        seenb = set()
        for bi, beh in enumerate(allb):
            key = json.dumps(beh, sort_keys=True)
            if key in seenb or (q and len(beh['ns']) > 1 and bi % 2):
                continue
            seenb.add(key)
            kind = ('CPA', 'DPA')[bi % 2]
            bad = positions_only(chk, beh, kind, chk.seed + bi)
            chk.count(('pos', kind, key), nontrivial=len(beh['cols']) >= 2 or len(beh['ns']) >= 2)
            chk.traces_validated += 1
            if bad:
                chk.violation(f'{kind}:{bad}', {'property': 'C08', 'behaviour': beh, 'kind': kind, 'precision': 'float64', 'seed': chk.seed + bi, 'clause': bad}, f'{kind} ns={beh["ns"]} base={beh["base"]} step={beh["step"]}: {bad}')
        # more convergence points than any pre-allocated table of them would hold (step 1 over 34..40 traces)
        many = [b for b in c02.generate(chk, 40, 2, 1, 1, 'single runs with 34..40 convergence points') if b['step'] == 1 and b['ns'][0] >= 34 and len(b['cols']) >= 34]
        for bi, beh in enumerate(many[:: max(1, len(many) // (3 if q else 10))]):
            kind = ('CPA', 'SNR', 'DPA')[bi % 3]
            bad, info = run_one(chk, beh, kind, 'float64', chk.seed + 7000 + bi)
            chk.count((kind, json.dumps(beh, sort_keys=True), 'float64', 'many-points'), nontrivial=True)
            chk.traces_validated += 1
            if bad:
                chk.violation(f'{kind}:{bad}', dict(info, property='C08', behaviour=beh, kind=kind, precision='float64', seed=chk.seed + 7000 + bi, clause=bad), f'{kind} ns={beh["ns"]} base={beh["base"]} step={beh["step"]}: {bad}')
        template_convergence(chk, rng, 8 if q else 40)
        from .. import apirules
        apirules.run(chk, 'convergence_step', 'C08')
        # (V) every observed execution, judged by the property alone in one TLC run
        if OBS:
            import os
            from .. import disthist as dh
            path = dh.write_json([o for o, _, _ in OBS])
            try:
                r = tlc.run('AnalysisTrace', cfg_text=tlc.cfg(invariants=['Verdict']), env={'TRACES': path}, workers=1, timeout=900)
            finally:
                os.unlink(path)
            chk.add_tlc('TRACE:all observed convergence executions judged by the property', r)
            for v in r.emits('VERDICT'):
                o, kind, beh = OBS[v['t'] - 1]
                chk.traces_validated += 1
                if v['clause'] != 'ok':
                    chk.violation(f'{kind}:convergence {v["clause"]}', {'property': 'C08', 'observation': o, 'behaviour': beh, 'kind': kind, 'clause': v['clause']}, f'{kind}: observed points {o["cols"]}: {v["clause"]}')
    finally:
        scared.Container._BATCH_SIZE = old


def replay(chk, path):
    memoise_lut()
    import scared
    rp = json.load(open(path))
    old = scared.Container._BATCH_SIZE
    try:
        bad, info = run_one(chk, rp['behaviour'], rp['kind'], rp['precision'], rp['seed'])
    finally:
        scared.Container._BATCH_SIZE = old
    print('disagreement:', bad, info)
    if bad:
        print(f'VIOLATION property=C08 replay={path}')
        return 1
    return 0
