"""C02 - Analysis.run on a Container equals the one-shot statistic on the whole trace set.

(M) specs/Analysis.tla: the code's slice construction and run loop, for every trace-set size, batch size and 1..3 runs:
    the batches handed to update tile 1..n in order (each trace exactly once, tail batch included), the whole set is
    consumed, results and scores are those of everything processed; slice-construction variants that drop the tail or
    repeat a trace are refuted (sensitivity).  specs/BatchRule.tla: the table lookup loop equals "entry with the largest
    threshold <= trace length"; the MB rule; always >= 1.
    specs/ContainerFeed.tla: what is fed for a trace is the frame selection passed through the preprocess chain in order; sample-wise chains
    commute with the selection, mixing ones do not ("chain, then decimate" is refuted on the very cases that are replayed).
(G) each generated behaviour is executed through the public API (read_ths_from_ram, Container, set_batch_size,
    <X>Attack / <X>Reverse .run) with wrappers recording what process / update / compute_results saw: batch ids == the
    specification's feed; update's traces == the feed ContainerFeed.tla derives for those traces and data == model(sf(metadata[ids])) exactly;
    results bit-identical to the standalone distinguisher fed once with everything (exact regime); scores ==
    discriminant(results); repeated runs accumulate.  Container.batch_size on real RAM sets vs BatchRule.
"""
import json
import os
import random

import numpy as np

from .. import disthist as dh
from .. import pipeline as pl
from .. import tlc
from ..dist import memoise_lut

INV = ['FeedTiles', 'WholeSetConsumed', 'ProcessedIsTotal', 'EffectiveBatchPositive', 'ResultsAreFinal', 'Increasing', 'LoopSpacing', 'OrdinarySpacing',
       'FirstLoopAfterStep', 'RemIsLastOfRun', 'EndsAtTotal', 'ColumnsAreComputes', 'NoColumnsWithoutStep']


def model(chk, maxn, maxbase, maxstep, runs, gen_step0_only=True):
    cons = {'MaxN': maxn, 'MaxBase': maxbase, 'MaxStep': maxstep, 'MaxRuns': runs, 'Gen': False, 'SliceBug': 'none'}
    r = tlc.run('Analysis', cfg_text=tlc.cfg(constants=cons, invariants=INV), workers=16, coverage=False)
    chk.add_tlc('MC:run loop', r)
    if r.violated:
        raise tlc.TLCError(f'Analysis violates {r.violated}\n' + '\n'.join(r.error_trace[:40]))
    for bug in ('droptail', 'dupfirst'):
        rb = tlc.run('Analysis', cfg_text=tlc.cfg(constants=dict(cons, SliceBug=bug, MaxN=5, MaxBase=4, MaxStep=0, MaxRuns=1), invariants=INV), workers=1)
        chk.add_tlc(f'MC:run loop ({bug}, must be refuted)', rb)
        if not rb.violated:
            raise tlc.TLCError(f'Analysis lost sensitivity: slice bug {bug} is not refuted')


def generate(chk, maxn, maxbase, maxstep, runs, label):
    cons = {'MaxN': maxn, 'MaxBase': maxbase, 'MaxStep': maxstep, 'MaxRuns': runs, 'Gen': True, 'SliceBug': 'none'}
    r = tlc.run('Analysis', cfg_text=tlc.cfg(constants=cons, invariants=['Emit']), workers=1)
    chk.add_tlc(f'GEN:{label}', r)
    return r.emits()


def execute(beh, kind, mode, precision, frame, chain, seed, step=None):
    """run one specification behaviour on the real pipeline; returns (analysis, recorder, sets, containers)"""
    import scared
    rs = np.random.RandomState(seed)
    pp = pl.preprocesses()
    a, mk = pl.build(kind, mode, precision, convergence_step=step, layout='CTF'[seed % 3], declared=(5 if seed % 4 == 1 else None), wide=(seed % 4 == 3))
    rec = pl.Recorder(a)
    sets = []
    id0 = 0
    scared.set_batch_size(int(beh['base']))
    for n in beh['ns']:
        ths, samples, v, ids = pl.make_set(rs, n, 6, 2, id0, sample_dtype=('>i2' if kind in ('CPA', 'DPA') and seed % 5 == 2 else None))
        id0 += n
        cont = scared.Container(ths, frame=pl.FRAMES[frame], preprocesses=[pp[c] for c in chain])
        sets.append((samples, v, ids))
        a.run(cont)
    return a, rec, sets, mk


def spec_feeds(chk, plan):
    """specs/ContainerFeed.tla: for every planned run and every one of its trace sets, the array the analysis must be fed for the whole set
    (frame first, then the chain); also the lemma on sample-wise chains and the refutation of "decimate after the chain" on these very cases"""
    cases, owner = [], []
    for pi, (beh, frame, chain, seed) in enumerate(plan):
        rs = np.random.RandomState(seed)
        for si, n in enumerate(beh['ns']):
            samples, _ = pl.gen_arrays(rs, n, 6, 2)
            cases.append({'rows': samples.tolist(), 'frame': pl.frame_positions(frame, 6), 'chain': ['minus1' if c == 'lowerhalf' else c for c in chain]})
            owner.append((pi, si))
    path = dh.write_json(cases)
    try:
        r = tlc.run('ContainerFeed', cfg_text=tlc.cfg(invariants=['SampleWiseCommutes', 'FeedWidth', 'Emit']), env={'CASES': path}, workers=1, timeout=1200)
        chk.add_tlc('MC+GEN:container feed (frame, then preprocess chain)', r)
        if r.violated:
            raise tlc.TLCError(f'ContainerFeed violates {r.violated}')
        r2 = tlc.run('ContainerFeed', cfg_text=tlc.cfg(invariants=['OrderIrrelevant']), env={'CASES': path}, workers=1, timeout=1200)
        chk.add_tlc('MC:container feed (chain before the frame selection, must be refuted)', r2)
        if not r2.violated:
            raise tlc.TLCError('ContainerFeed lost sensitivity: no planned case distinguishes "chain then decimate" from "frame then chain"')
    finally:
        os.unlink(path)
    out = {}
    for e in r.emits():
        pi, si = owner[e['case'] - 1]
        fedm = np.array(e['fed'], dtype='int64').reshape(len(cases[e['case'] - 1]['rows']), -1)
        if 'lowerhalf' in plan[pi][2]:
            fedm = fedm / 2.0                       # the chain's last preprocess is (x - 1) / 2: the specification's integer feed, halved (exact)
        out.setdefault(pi, {})[si] = fedm
    if sum(len(v) for v in out.values()) != len(cases):
        raise tlc.TLCError('ContainerFeed: missing cases')
    return out


def compare(chk, beh, a, rec, sets, mk, ctx, frame, chain, check_cols=False, spec_fed=None):
    pp = pl.preprocesses()
    bad = None
    fed = beh['fed']
    starts = np.cumsum([0] + beh['ns'])
    # P: the batches handed to update tile every run's trace set in order (each trace exactly once); the batch BOUNDARIES are the
    # mechanism's business (K): a different but valid tiling is reported as drift, not as a violation
    alltr, alld = [], []
    seen = {r: 0 for r in range(1, len(beh['ns']) + 1)}
    order = []
    for (ids, tr, d) in rec.batches:
        if ids is None or len(ids) == 0:
            bad = 'no empty batch is handed to update'
            break
        ids = np.asarray(ids)
        run = int(np.searchsorted(starts, ids[0], side='right'))
        lo = int(ids[0] - starts[run - 1])
        if run < 1 or run > len(beh['ns']) or lo != seen[run] or not np.array_equal(ids, np.arange(ids[0], ids[0] + len(ids))) or lo + len(ids) > beh['ns'][run - 1] \
                or (order and run < order[-1]):
            bad = 'every trace is used exactly once, in order'
            ctx = dict(ctx, got_ids=ids.tolist(), expected_next=int(starts[run - 1] + seen.get(run, 0)) if 1 <= run <= len(beh['ns']) else None)
            break
        seen[run] += len(ids)
        order.append(run)
        samples, v, _ = sets[run - 1]
        xt, xd = pl.expected_arrays(a, samples, v, np.arange(lo, lo + len(ids)), frame, chain, pp)
        if spec_fed is not None:
            xt = spec_fed[run - 1][lo:lo + len(ids)]           # the specification's feed for these traces (ContainerFeed.tla)
        if tr.shape != xt.shape or not np.array_equal(tr, xt):
            bad = 'update receives the frame of each trace passed through the preprocess chain in order'
            break
        if d.shape != xd.shape or not np.array_equal(d, xd):
            bad = 'each trace is paired with its own metadata: data equals model(selection_function(metadata of the same traces))'
            break
        alltr.append(tr)
        alld.append(xd)
    if not bad and [seen[r] for r in sorted(seen)] != list(beh['ns']):
        bad = 'the whole trace set is consumed (tail batch included)'
        ctx = dict(ctx, consumed=[seen[r] for r in sorted(seen)], sizes=beh['ns'])
    if not bad and [[int(np.searchsorted(starts, i[0], side='right')), int(i[0] - starts[np.searchsorted(starts, i[0], side='right') - 1]) + 1,
                    int(i[-1] - starts[np.searchsorted(starts, i[0], side='right') - 1]) + 1] for i, _, _ in rec.batches] != [list(f) for f in fed]:
        chk.drift += 1
    if not bad and rec.computes and rec.computes[-1] != beh['computes'][-1]:
        bad = 'results are computed from everything processed at the end of every run'
    if not bad and rec.computes != beh['computes']:
        chk.drift += 1          # where intermediate results are computed is mechanism (K); P is checked on the final results below
    if not bad:
        one = mk()
        one.update(np.concatenate(alltr), np.concatenate(alld))
        ref = np.asarray(one.compute())
        got = np.asarray(a.results)
        if got.shape != ref.shape or got.dtype != ref.dtype or not np.array_equal(got, ref, equal_nan=True):
            bad = 'results equal the same distinguisher applied once to all traces'
            ctx = dict(ctx, got=got.tolist(), one_shot=ref.tolist())
        elif hasattr(a, 'discriminant'):
            sc = np.asarray(a.discriminant(a.results))
            if a.scores is None or not np.array_equal(np.asarray(a.scores), sc, equal_nan=True):
                bad = 'scores equal the discriminant applied to the results'
    return bad, ctx


def batch_rule(chk):
    import scared
    table = [(0, 25000), (1001, 5000), (5001, 2500), (10001, 1000), (50001, 250), (100001, 100)]
    tables = [table, [(0, 7), (4, 3), (9, 2)]]
    lens_q = [{1, 1000, 1001, 5000, 5001, 10000, 10001, 50000, 50001, 100000, 100001}, {1, 3, 4, 8, 9, 50}]
    for ti, (tb, lens) in enumerate(zip(tables, lens_q)):
        r = tlc.run('BatchRule', cfg_text=tlc.cfg(constants={'Lens': lens, 'Bytes': {1024, 65536, 1048576, 3 * 1048576}, 'ItemSizes': {1, 4, 8}, 'Gen': True},
                                                  invariants=['TableRuleIsLookup', 'AtLeastOne', 'MbDocumented', 'Emit']), defs={'Table': tlc.tla([list(x) for x in tb])}, workers=1)
        chk.add_tlc(f'MC+GEN:batch rule table {ti}', r)
        if r.violated:
            raise tlc.TLCError(f'BatchRule violates {r.violated}')
        old = scared.Container._BATCH_SIZE
        try:
            for e in r.emits():
                dt = {1: 'uint8', 4: 'float32', 8: 'float64'}[e['item']]
                ths = scared.traces.read_ths_from_ram(samples=np.zeros((2, e['len']), dtype=dt))
                if e['mode'] == 'table':
                    scared.set_batch_size(tb if ti == 0 else [tuple(x) for x in tb])
                else:
                    scared.set_batch_size(e['bytes'] / 2 ** 20)
                got = scared.Container(ths).batch_size
                chk.count(('BR', ti, e['mode'], e['len'], e['bytes'], e['item']), nontrivial=True)
                if got != e['bs']:
                    chk.violation(f'batch size rule ({e["mode"]})', {'property': 'C02', 'part': 'batch_rule', 'setting': e, 'table': tb, 'got': got},
                                  f'Container.batch_size = {got}, specification {e["bs"]} for {e}')
            scared.set_batch_size(12)
            if scared.Container(scared.traces.read_ths_from_ram(samples=np.zeros((2, 5), dtype='uint8'))).batch_size != 12:
                chk.violation('batch size rule (int)', {'property': 'C02', 'part': 'batch_rule', 'setting': 12}, 'integer setting is not used as is')
        finally:
            scared.Container._BATCH_SIZE = old


def run(chk):
    memoise_lut()
    import numba
    import scared
    numba.set_num_threads(2)
    rng = random.Random(chk.seed)
    q = chk.tier == 'quick'
    chk.rule = ('TLC enumerates every (trace-set sizes of 1..3 consecutive runs, container batch size) within the bound with the complete feed; a seeded subset of behaviours is executed for '
                'each of 12 analysis classes (CPA/DPA/ANOVA/NICV/SNR/MIA x Attack/Reverse) x frame x preprocess chain; one evaluation = one behaviour on one real analysis object with the '
                'feed, the arrays given to update, the compute points, results and scores compared; non-trivial = more than one batch or more than one run; batch-size rule: every '
                '(setting, trace length at the table thresholds, item size)')
    chk.assumptions += ['integer samples (exact regime): results must be bit-identical to the one-shot distinguisher', 'frames: Ellipsis/None, slices, index list, index array (frame=int is outside the quantifier)',
                        'expected arrays are evaluated with the same public preprocess / model / selection-function callables (C15, C18 decide those)']
    model(chk, 9 if q else 12, 10 if q else 14, 11 if q else 14, 2 if q else 3)
    behs = generate(chk, 7 if q else 9, 8 if q else 10, 0, 2, 'feeds(step=0)')
    rng.shuffle(behs)
    cbehs = [b for b in generate(chk, 7 if q else 9, 5 if q else 7, 7 if q else 9, 2, 'feeds(with convergence step)') if b['step'] > 0]
    rng.shuffle(cbehs)
    # boundary behaviours first: the total is a multiple of the step although the last in-loop point is not at the total
    edge = [b for b in cbehs if sum(b['ns']) % b['step'] == 0 and b['cols'] and b['cols'][-1]['kind'] == 'rem']
    cbehs = [x for pair in zip(edge, cbehs) for x in pair] + cbehs if edge else cbehs
    old = scared.Container._BATCH_SIZE
    frames = list(pl.FRAMES)
    try:
        nb = 0
        per = 10 if q else 40
        runs = []
        combos = [(f_, c_) for f_ in frames for c_ in pl.CHAINS]
        rng.shuffle(combos)
        for ki, kind in enumerate(pl.KINDS):
            for mode in ('attack', 'reverse'):
                for j in range(per):
                    use_step = mode == 'attack' and j % 2 == 1          # every second attack run also asks for convergence traces
                    beh = cbehs[(nb // 2) % len(cbehs)] if use_step else behs[(nb * 7919) % len(behs)]
                    nb += 1
                    frame, chain = combos[nb % len(combos)]          # every (frame, chain) pair is used (the list is walked, not sampled)
                    prec = 'float64' if nb % 3 else 'float32'
                    if kind == 'MIA' and nb % 2 == 0:
                        prec = 'uint32'
                    runs.append((beh, kind, mode, prec, frame, chain, chk.seed + nb, use_step))
        feeds = spec_feeds(chk, [(beh, frame, chain, seed) for beh, kind, mode, prec, frame, chain, seed, use_step in runs])
        for ri, (beh, kind, mode, prec, frame, chain, seed, use_step) in enumerate(runs):
            ctx = {'property': 'C02', 'behaviour': beh, 'kind': kind, 'mode': mode, 'precision': prec, 'frame': frame, 'chain': chain, 'seed': seed, 'convergence_step': int(beh['step']) if use_step else None}
            a, rec, sets, mk = execute(beh, kind, mode, prec, frame, chain, seed, step=int(beh['step']) if use_step else None)
            bad, ctx = compare(chk, beh, a, rec, sets, mk, ctx, frame, chain, spec_fed=feeds[ri])
            chk.count((kind, mode, json.dumps(beh, sort_keys=True), frame, tuple(chain), prec), nontrivial=len(beh['fed']) > 1)
            chk.traces_validated += 1
            if bad:
                chk.violation(f'{kind}{mode}:{bad}', ctx, f'{kind} {mode} ns={beh["ns"]} base={beh["base"]} frame={frame} chain={chain}: {bad}')
            if len(chk.samples) < 3 and len(beh['fed']) > 2:
                chk.sample({'ns': beh['ns'], 'batch_size': beh['base'], 'feed': beh['fed'], 'kind': kind, 'mode': mode, 'frame': frame, 'chain': chain})
        # every generated behaviour with a convergence step (and every one without) on one cheap class: batch-size / step / trace-count
        # arithmetic is where the run loop can go wrong, and no sampling is involved here
        for bi, beh in enumerate(cbehs + behs):
            if q and len(beh['ns']) > 1 and bi % 3:
                continue
            step = int(beh['step']) or None
            kind = ('CPA', 'DPA', 'SNR')[bi % 3]
            ctx = {'property': 'C02', 'behaviour': beh, 'kind': kind, 'mode': 'attack', 'precision': 'float64', 'frame': 'all', 'chain': [], 'seed': chk.seed + bi, 'convergence_step': step}
            a, rec, sets, mk = execute(beh, kind, 'attack', 'float64', 'all', [], chk.seed + bi, step=step)
            bad, ctx = compare(chk, beh, a, rec, sets, mk, ctx, 'all', [])
            chk.count((kind, 'attack', json.dumps(beh, sort_keys=True), 'all', (), 'float64'), nontrivial=len(beh['fed']) > 1)
            chk.traces_validated += 1
            if bad:
                chk.violation(f'{kind}attack:{bad}', ctx, f'{kind} attack ns={beh["ns"]} base={beh["base"]} step={step}: {bad}')
        batch_rule(chk)
        from .. import apirules
        apirules.run(chk, 'batch_size', 'C02')
    finally:
        scared.Container._BATCH_SIZE = old


def replay(chk, path):
    memoise_lut()
    import scared
    rp = json.load(open(path))
    if rp.get('part') == 'batch_rule':
        print('re-run ./check C02 (batch rule cases are enumerated by TLC)')
        return 0
    old = scared.Container._BATCH_SIZE
    try:
        a, rec, sets, mk = execute(rp['behaviour'], rp['kind'], rp['mode'], rp['precision'], rp['frame'], rp['chain'], rp['seed'], step=rp.get('convergence_step'))
        bad, _ = compare(chk, rp['behaviour'], a, rec, sets, mk, {}, rp['frame'], rp['chain'])
    finally:
        scared.Container._BATCH_SIZE = old
    print('disagreement:', bad)
    if bad:
        print(f'VIOLATION property=C02 replay={path}')
        return 1
    return 0
