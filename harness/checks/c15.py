"""C15 - leakage models and discriminants compute their definitions on every value.

(M) specs/Models.tla + ModelsEnum.tla: for EVERY uint8 and uint16 value two formulations of the population count agree
    (bit recursion vs sum of the bits); grouping / reduction are defined by index arithmetic on (flat C-order, shape, axis).
(G) every uint8 and every uint16 value is replayed on HammingWeight and Monobit(0..8); uint32 / uint64 through byte limbs:
    every byte value in every lane over zero / 0xFF / random backgrounds; HammingWeight(nb_words = k) on arrays of every shape
    <= 3x3x4, every axis (non-negative and negative) and k = 1..3 incl. non-dividing lengths; Value; the five discriminants on
    EVERY array of shape 2x2 (2x3 thorough) over {-2..2, NaN, +inf, -inf} along both axes, plus driver-proposed 3-D arrays.
"""
import itertools
import json
import random
import re

import numpy as np

from .. import disthist as dh
from .. import tlc
from ..core import scribble


def words(chk):
    import scared
    r = tlc.run('ModelsEnum', cfg_text=tlc.cfg(constants={'Mode': 'words', 'MaxVal': 65535, 'Vals': {0}}, invariants=['PopFormulationsAgree', 'Emit']), defs={'Shape': '<<1>>'}, workers=1)
    chk.add_tlc('MC+GEN:every 16-bit word', r)
    if r.violated:
        raise tlc.TLCError(f'ModelsEnum(words) violates {r.violated}')
    em = r.emits()
    if len(em) != 65536:
        raise tlc.TLCError(f'expected 65536 emitted words, got {len(em)}')
    xs = np.array([e[0] for e in em], dtype='uint32')
    pop = np.array([e[1] for e in em], dtype='uint32')
    bits = np.array([[int(t) for t in re.findall(r'\d+', e[2])] for e in em], dtype='uint8')
    order = np.argsort(xs)
    xs, pop, bits = xs[order], pop[order], bits[order]
    hw16 = scared.HammingWeight(expected_dtype='uint16')
    hw8 = scared.HammingWeight()
    got16 = hw16(xs.astype('uint16').reshape(-1, 1)).reshape(-1)
    got8 = hw8(xs[:256].astype('uint8').reshape(-1, 1)).reshape(-1)
    for name, got, want, vals in (('uint16', got16, pop, xs), ('uint8', got8, pop[:256], xs[:256])):
        bad = np.nonzero(got != want)[0]
        chk.evaluations += len(vals)
        chk.nontrivial_count += len(vals) - 1
        for b in bad[:3]:
            chk.violation(f'HammingWeight:{name} population count', {'property': 'C15', 'part': 'hw', 'dtype': name, 'value': int(vals[b]), 'got': int(got[b]), 'expected': int(want[b])},
                          f'HammingWeight({name} {int(vals[b])}) = {int(got[b])}, expected {int(want[b])}')
    for b in range(0, 9):
        m = scared.Monobit(b)
        for name, arr, nb in (('uint16', xs.astype('uint16'), 16), ('uint8', xs[:256].astype('uint8'), 8), ('int32', xs.astype('int32'), 16)):
            if 2 ** b > np.iinfo(arr.dtype).max:
                continue        # numpy refuses the mask for this dtype (OverflowError): a refusal, not a wrong value
            got = m(arr.reshape(-1, 1)).reshape(-1)
            want = bits[:len(arr), b]
            chk.evaluations += len(arr)
            chk.nontrivial_count += len(arr) - 1
            bad = np.nonzero(got != want)[0]
            for k in bad[:3]:
                chk.violation(f'Monobit:bit {b} of every value', {'property': 'C15', 'part': 'monobit', 'bit': b, 'dtype': name, 'value': int(arr[k]), 'got': int(got[k]), 'expected': int(want[k])},
                              f'Monobit({b})({name} {int(arr[k])}) = {int(got[k])}')
    chk.traces_validated += 65536
    chk.sample({'word': int(xs[300]), 'popcount': int(pop[300]), 'bits_lsb_first': bits[300].tolist()})
    return pop


def wide(chk, pop, rng):
    """uint32 / uint64: value = byte limbs; expected = sum of the limb popcounts TLC emitted for every byte"""
    import scared
    for dt, nl in (('uint32', 4), ('uint64', 8)):
        hw = scared.HammingWeight(expected_dtype=dt)
        for bg_name in ('zero', 'ff', 'random'):
            for lane in range(nl):
                bg = [0] * nl if bg_name == 'zero' else [255] * nl if bg_name == 'ff' else [rng.randint(0, 255) for _ in range(nl)]
                limbs = np.array([bg[:lane] + [b] + bg[lane + 1:] for b in range(256)], dtype='uint64')
                vals = np.zeros(256, dtype='uint64')
                for j in range(nl):
                    vals |= limbs[:, j] << np.uint64(8 * j)
                want = pop[limbs.astype('int64')].sum(axis=1)
                got = hw(vals.astype(dt).reshape(-1, 1)).reshape(-1)
                chk.evaluations += 256
                chk.nontrivial_count += 255
                bad = np.nonzero(got != want)[0]
                for k in bad[:2]:
                    chk.violation(f'HammingWeight:{dt} population count (byte lane {lane})', {'property': 'C15', 'part': 'hw', 'dtype': dt, 'value': int(vals[k]), 'got': int(got[k]), 'expected': int(want[k])},
                                  f'HammingWeight({dt} {int(vals[k]):#x}) = {int(got[k])}, expected {int(want[k])}')
        limbs = np.array([[rng.randint(0, 255) for _ in range(nl)] for _ in range(2000)], dtype='uint64')
        vals = np.zeros(len(limbs), dtype='uint64')
        for j in range(nl):
            vals |= limbs[:, j] << np.uint64(8 * j)
        want = pop[limbs.astype('int64')].sum(axis=1)
        got = hw(vals.astype(dt).reshape(-1, 1)).reshape(-1)
        chk.evaluations += len(vals)
        chk.nontrivial_count += len(vals)
        if np.any(got != want):
            k = int(np.nonzero(got != want)[0][0])
            chk.violation(f'HammingWeight:{dt} population count (random)', {'property': 'C15', 'part': 'hw', 'dtype': dt, 'value': int(vals[k]), 'got': int(got[k]), 'expected': int(want[k])}, f'{dt} {int(vals[k]):#x}')


def grouping(chk, rng):
    import scared
    cases, arrays = [], []
    shapes = [(4,), (2, 3), (3, 4), (2, 3, 4), (3, 2, 2), (3, 3, 3)]
    for shp in shapes:
        for axis in range(len(shp)):
            for k in (1, 2, 3):
                if shp[axis] < k:
                    continue
                for dt in ('uint8', 'uint16'):
                    a = np.array([rng.randint(0, np.iinfo(dt).max) for _ in range(int(np.prod(shp)))], dtype=dt).reshape(shp)
                    cases.append({'kind': 'hw', 'flat': [int(x) for x in a.reshape(-1)], 'shape': list(shp), 'axis': axis, 'k': k})
                    arrays.append((a, dt))
    # long groups of heavy words: group totals of 256 and more (32 bytes of 0xFF, 16 words of 0xFFFF), next to totals just below
    for shp, axis, k, dt, fill in (((64,), 0, 32, 'uint8', 255), ((2, 33), 1, 32, 'uint8', 255), ((2, 34), 1, 17, 'uint16', 65535), ((40, 2), 0, 33, 'uint8', 254), ((3, 16), 1, 16, 'uint16', 65535)):
        a = np.full(shp, fill, dtype=dt)
        a.flat[1] = 0
        a.flat[-1] = 1
        cases.append({'kind': 'hw', 'flat': [int(x) for x in a.reshape(-1)], 'shape': list(shp), 'axis': axis, 'k': k})
        arrays.append((a, dt))
    path = dh.write_json(cases)
    import os
    try:
        r = tlc.run('ModelsEnum', cfg_text=tlc.cfg(constants={'Mode': 'cases', 'MaxVal': 0, 'Vals': {0}}, invariants=['Emit']), defs={'Shape': '<<1>>'}, env={'CASES': path}, workers=1)
    finally:
        os.unlink(path)
    chk.add_tlc('GEN:HammingWeight grouping cases', r)
    res = {e['case'] - 1: e['res'] for e in r.emits()}
    for ci, (c, (a, dt)) in enumerate(zip(cases, arrays)):
        hw = scared.HammingWeight(nb_words=c['k'], expected_dtype=dt)
        nd = len(c['shape'])
        for axis in (c['axis'], c['axis'] - nd):          # non-negative and negative spelling of the same axis
            chk.count(('grp', ci, axis), nontrivial=c['k'] > 1)
            # the same values in another memory layout (Fortran order, as a transposed view gives it): a model is a function of the values
            lay = a if (ci + axis) % 3 else np.asfortranarray(a)
            try:
                got = np.asarray(hw(lay, axis=axis))
            except Exception as ex:
                chk.violation('HammingWeight(nb_words):sum over groups of consecutive words along the chosen axis (axis spelling refused)',
                              {'property': 'C15', 'part': 'group', 'case': c, 'axis_passed': axis, 'error': repr(ex)[:200]}, f'HammingWeight(nb_words={c["k"]}) axis={axis} on shape {c["shape"]}: {ex!r}'[:200])
                continue
            want = np.array(res[ci]['hw'], dtype='int64').reshape(res[ci]['shape'])
            if got.shape != want.shape or not np.array_equal(got, want):
                neg = 'negative axis' if axis < 0 else 'axis'
                chk.violation(f'HammingWeight(nb_words):sum over groups of consecutive words along the chosen axis ({neg})',
                              {'property': 'C15', 'part': 'group', 'case': c, 'axis_passed': axis, 'fortran_order': lay is not a, 'got_shape': list(got.shape), 'expected_shape': list(want.shape), 'got': got.tolist(), 'expected': want.tolist()},
                              f'HammingWeight(nb_words={c["k"]}) axis={axis} on shape {c["shape"]}: shape {got.shape} vs {want.shape}')
            scribble(got)          # the result is the caller's; the same model object serves the next call
        if [int(x) for x in a.reshape(-1)] != c['flat']:
            chk.violation('HammingWeight(nb_words):the data array is left as it was given', {'property': 'C15', 'part': 'group', 'case': c}, 'HammingWeight modified its input array')
        v = scared.Value()(a)
        if v.shape != a.shape or not np.array_equal(v, a):
            chk.violation('Value:returns the data unchanged', {'property': 'C15', 'part': 'value', 'case': c}, 'Value changed the data')
        chk.traces_validated += 1
    chk.sample({'grouping_case': cases[10], 'expected': res[10]})


NAMES = ['nanmax', 'maxabs', 'opposite_min', 'nansum', 'abssum']


def to_arr(flat, shape, dtype='float64'):
    return np.array([np.nan if x == 99 else np.inf if x == 90 else -np.inf if x == -90 else x for x in flat], dtype=dtype).reshape(shape)


def disc_compare(chk, flat, shape, rec, key):
    import scared
    import warnings
    a = to_arr(flat, shape, 'float64' if key % 2 else 'float32')
    nd = len(shape)
    for ax in range(nd):
        for n, name in enumerate(NAMES):
            want = to_arr(rec[ax][n], [s for i, s in enumerate(shape) if i != ax])
            for axis in ((ax, -1) if ax == nd - 1 else (ax,)):
                with warnings.catch_warnings():
                    warnings.simplefilter('ignore')
                    got = np.asarray(getattr(scared, name)(a, axis=axis))
                chk.count(('disc', key, ax, name, axis), nontrivial=True)
                if not np.array_equal(a, to_arr(flat, shape, a.dtype), equal_nan=True):
                    chk.violation(f'{name}:the data array is left as it was given', {'property': 'C15', 'part': 'disc', 'name': name, 'axis': axis}, f'{name} modified its input array')
                    a = to_arr(flat, shape, a.dtype)
                if a.dtype == np.float64 and key % 4 == 1:
                    # the same array in units of 1.1 (values with no exact single-precision image): every discriminant is homogeneous of degree one
                    # under a positive factor, so the result is 1.1 x the specification's (to float64 rounding), whatever arrays were reduced before
                    with warnings.catch_warnings():
                        warnings.simplefilter('ignore')
                        got11 = np.asarray(getattr(scared, name)(a * 1.1, axis=axis), dtype='float64')
                    if got11.shape != want.shape or not np.allclose(got11, want * 1.1, rtol=1e-13, atol=1e-15, equal_nan=True):
                        chk.violation(f'{name}:reduces exactly the requested axis with NaN entries ignored (float64 values)', {'property': 'C15', 'part': 'disc', 'array': (a * 1.1).tolist(), 'axis': axis, 'name': name,
                                                                                                                              'got': got11.tolist(), 'expected': (want * 1.1).tolist()},
                                      f'{name}(1.1 x {a.tolist()}, axis={axis}) = {got11.tolist()} expected {(want * 1.1).tolist()}')
                if got.shape != want.shape or not np.array_equal(got, want, equal_nan=True):
                    chk.violation(f'{name}:reduces exactly the requested axis with NaN entries ignored', {'property': 'C15', 'part': 'disc', 'array': a.tolist(), 'axis': axis, 'name': name,
                                                                                                         'got': got.tolist(), 'expected': want.tolist()},
                                  f'{name}({a.tolist()}, axis={axis}) = {got.tolist()} expected {want.tolist()}')


def discriminants(chk, rng):
    shape = [2, 2] if chk.tier == 'quick' else [2, 3]
    r = tlc.run('ModelsEnum', cfg_text=tlc.cfg(constants={'Mode': 'disc', 'MaxVal': 0}, invariants=['NaNPaddingIrrelevant', 'Emit']), defs={'Shape': tlc.tla(shape), 'Vals': '{-2, -1, 0, 1, 2, 90, -90}' if chk.tier == 'quick' else '{-1, 0, 2, 90, -90}'}, workers=1)
    chk.add_tlc(f'GEN:every array of shape {shape} over a few finite values u NaN u +-infinity', r)
    for i, e in enumerate(r.emits()):
        disc_compare(chk, e['arr'], shape, e['disc'], i)
        chk.traces_validated += 1
    cases = []
    for _ in range(40 if chk.tier == 'quick' else 300):
        shp = rng.choice([[2, 3, 2], [3, 2], [1, 4], [2, 2, 3], [4, 1]])
        cases.append({'kind': 'disc', 'flat': [rng.choice([-7, -2, -1, 0, 1, 3, 8, 99, 99, 90, -90]) for _ in range(int(np.prod(shp)))], 'shape': shp})
    path = dh.write_json(cases)
    import os
    try:
        r2 = tlc.run('ModelsEnum', cfg_text=tlc.cfg(constants={'Mode': 'cases', 'MaxVal': 0, 'Vals': {0}}, invariants=['Emit']), defs={'Shape': '<<1>>'}, env={'CASES': path}, workers=1)
    finally:
        os.unlink(path)
    chk.add_tlc('GEN:discriminants on driver-proposed n-D arrays', r2)
    for e in r2.emits():
        c = cases[e['case'] - 1]
        disc_compare(chk, c['flat'], c['shape'], e['res']['disc'], 100000 + e['case'])
        chk.traces_validated += 1
    # large arrays (beyond any internal blocking), by the two lemmas of the specification: NaN padding is irrelevant, a lane is reduced on its own
    import scared
    import warnings
    big = 0
    for e in r2.emits():
        c = cases[e['case'] - 1]
        if len(c['shape']) != 2 or big >= (6 if chk.tier == 'quick' else 40):
            continue
        big += 1
        rws, cls_ = c['shape']
        small = to_arr(c['flat'], c['shape'])
        # (a) long lanes: the c values of every row spread over 30000 positions, everything else NaN (the first 12000 positions entirely)
        wide = np.full((rws, 30000), np.nan)
        pos = [12000 + 700 * j + 13 * big for j in range(cls_)]
        wide[:, pos] = small
        # (b) very many short lanes: the rows repeated cyclically 70000 times
        tall = small[np.arange(70000) % rws]
        for n, name in enumerate(NAMES):
            with warnings.catch_warnings():
                warnings.simplefilter('ignore')
                got_w = [np.asarray(getattr(scared, name)(wide, axis=ax_)) for ax_ in (1, -1)]
                got_t = np.asarray(getattr(scared, name)(tall, axis=1))
                got_tt = np.asarray(getattr(scared, name)(tall.T.copy(), axis=0))
            want = to_arr(e['res']['disc'][1][n], [rws])
            chk.count(('disc-large', e['case'], name), nontrivial=True)
            ok = all(g.shape == want.shape and np.array_equal(g, want, equal_nan=True) for g in got_w) and np.array_equal(got_t, want[np.arange(70000) % rws], equal_nan=True) \
                and np.array_equal(got_tt, want[np.arange(70000) % rws], equal_nan=True)
            if not ok:
                chk.violation(f'{name}:reduces exactly the requested axis with NaN entries ignored (large arrays)', {'property': 'C15', 'part': 'disc', 'name': name, 'small_array': small.tolist(), 'expected_per_row': want.tolist(),
                                                                                                                      'got_long_lanes': got_w[0].tolist(), 'got_many_lanes_first': got_t[:rws].tolist()},
                              f'{name} on a {wide.shape} / {tall.shape} presentation of {small.tolist()}: got {got_w[0].tolist()} / {got_t[:rws].tolist()} expected {want.tolist()}')
        chk.traces_validated += 1
    chk.sample({'discriminant_case': cases[0]})


def run(chk):
    rng = random.Random(chk.seed)
    chk.rule = ('every uint8 and uint16 value (TLC states) x HammingWeight / Monobit(0..8); uint32/uint64: every byte value in every lane over three backgrounds + 2000 random words; grouping: every '
                '(shape, axis, nb_words, dtype) of the list with both axis spellings; discriminants: every array of the small shape over {-2..2, NaN} x 5 discriminants x axes; one evaluation = one '
                'compared value/array; non-trivial = all but the zero word')
    chk.assumptions += ['NaN is the sentinel 99 inside the specification, +-infinity the sentinels +-90 (IEEE: x + inf = inf, inf - inf = NaN)', 'Monobit(b) is claimed for masks representable in the data dtype (numpy refuses the others)',
                        'an all-NaN lane reduces to NaN for the max-type discriminants and to 0 for the sums',
                        'discriminants are claimed for arrays of >= 2 dimensions (a 1-D array is refused by the decorator: the reduced result is not an array)']
    pop = words(chk)
    wide(chk, pop, rng)
    grouping(chk, rng)
    discriminants(chk, rng)
    from .. import apirules
    apirules.run(chk, 'monobit', 'C15')
    apirules.run(chk, 'hamming_weight', 'C15')


def replay(chk, path):
    import scared
    rp = json.load(open(path))
    if rp.get('part') == 'group':
        c = rp['case']
        dt = 'uint8' if max(c['flat']) < 256 else 'uint16'
        a = np.array(c['flat'], dtype=dt).reshape(c['shape'])
        if rp.get('fortran_order'):
            a = np.asfortranarray(a)
        try:
            got = np.asarray(scared.HammingWeight(nb_words=c['k'], expected_dtype=dt)(a, axis=rp['axis_passed']))
        except Exception as ex:
            print('raised', ex)
            print(f'VIOLATION property=C15 replay={path}')
            return 1
        ok = 'expected' in rp and got.tolist() == rp['expected']
        print('got', got.tolist(), 'expected', rp.get('expected'))
        if not ok:
            print(f'VIOLATION property=C15 replay={path}')
            return 1
        return 0
    print('re-run ./check C15 (cases are enumerated by TLC)')
    return 0
