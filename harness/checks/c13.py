"""C13 - MIA is the mutual information between the histogram bin of the sample (over the configured edges) and the value class.

(M) specs/MiaEdges.tla: over EVERY integer edge list of length <= 5 over 0..6 the setter's acceptance rule (K) coincides with
    "increasing and equally spaced" (P, two formulations); the pinned upstream rule (telescoping sum) is refuted (sensitivity);
    on uniform integer edges the kernel's arithmetic bin index equals the bin decided by comparison with the edges.
    specs/MiaCases.tla: every in-range sample of a declared class is counted exactly once.
(G) every enumerated edge list (also scaled / shifted dyadic presentations) is offered to MIADistinguisher(...), MIAAttack(...),
    MIAReverse(...) and the bin_edges setter: accepted iff the specification says valid.  Datasets on a grid containing every
    edge, mid-bin points and both outsides, with empty and undeclared classes: the joint histogram must equal the
    specification's exactly; compute() must equal the exact term list evaluated with math.log; zero under independence; >= -tol.
    Float edges (linspace with non-representable steps) with samples on and one ulp around every edge: floats are presented to
    TLC by their rank in IEEE order (the specification only compares), the code gets the floats.
"""
import json
import math
import random

import numpy as np

from .. import stats as st
from .. import tlc
from ..dist import memoise_lut


def edge_model(chk):
    cons = {'MaxLen': 5, 'MaxVal': 6 if chk.tier == 'quick' else 7, 'Gen': False}
    r = tlc.run('MiaEdges', cfg_text=tlc.cfg(constants=dict(cons, Variant='fixed'), invariants=['RuleIsTheProperty', 'FormulationsAgree', 'ArithBinIsEdgeBin']), workers=8)
    chk.add_tlc('MC:edges(fixed rule)', r)
    if r.violated:
        raise tlc.TLCError(f'MiaEdges(fixed) violates {r.violated}')
    r2 = tlc.run('MiaEdges', cfg_text=tlc.cfg(constants=dict(cons, Variant='pinned'), invariants=['RuleIsTheProperty']), workers=1)
    chk.add_tlc('MC:edges(pinned rule, must be refuted)', r2)
    if not r2.violated:
        raise tlc.TLCError('MiaEdges lost sensitivity: the telescoping uniformity test is no longer refuted')
    r3 = tlc.run('MiaEdges', cfg_text=tlc.cfg(constants=dict(cons, Variant='fixed', Gen=True), invariants=['Emit']), workers=1)
    chk.add_tlc('GEN:edges', r3)
    return r3.emits()


def offer(where, edges):
    import scared
    try:
        if where == 'distinguisher':
            scared.MIADistinguisher(bin_edges=edges)
        elif where == 'attack':
            scared.MIAAttack(selection_function=scared.aes.selection_functions.encrypt.FirstSubBytes(), model=scared.HammingWeight(),
                             discriminant=scared.maxabs, bin_edges=edges)
        elif where == 'reverse':
            scared.MIAReverse(selection_function=scared.aes.selection_functions.encrypt.FirstSubBytes(), model=scared.HammingWeight(), bin_edges=edges)
        else:
            o = scared.MIADistinguisher(bin_edges=[0, 1])
            try:
                o.bin_edges = edges
            except (ValueError, TypeError):
                # refused means not in force: the object still has the edges it had
                if not np.array_equal(np.asarray(o.bin_edges, dtype='float64'), [0.0, 1.0]) or getattr(o, 'bins_number', 1) != 1:
                    return 'refused-but-in-force'
                raise
        return True
    except (ValueError, TypeError):
        return False


def edges_replay(chk, emitted):
    wheres = ['distinguisher', 'attack', 'reverse', 'setter']
    for i, e in enumerate(emitted):
        ints = e['e']
        forms = [('list', ints), ('float64', np.array(ints, dtype='float64') * 0.25 - 3.0), ('offset-30000', np.array(ints, dtype='float64') * 0.25 + 30000.0)]
        if i % 2 == 0:
            forms.append(('offset-2e6', np.array(ints, dtype='float64') * 4.0 + 2.0e6))
        if i % 3 == 0:
            forms.append(('int-array', np.array(ints, dtype='int64') * 3 + 100))
        # unsigned integer arrays (differences of unsigned values wrap around instead of going negative), signed narrow ones, float32
        forms.append((['uint8', 'uint16', 'int8', 'uint32', 'float32'][i % 5], (np.array(ints, dtype='int64') * 7 + 10).astype(['uint8', 'uint16', 'int8', 'uint32', 'float32'][i % 5])))
        for fname, ed in forms:
            where = wheres[i % 4] if chk.tier == 'quick' else None
            for wh in ([where] if where else wheres):
                got = offer(wh, ed)
                chk.count(('E', i, fname, wh), nontrivial=len(ints) >= 3)
                if got == 'refused-but-in-force':
                    chk.violation('edges:non-uniform edges are refused when configured:refused edges stay in force', {'property': 'C13', 'edges': list(map(float, np.asarray(ed).tolist())), 'where': wh, 'accepted': False, 'spec_valid': e['valid']},
                                  f'{wh}: edges {list(np.asarray(ed).tolist())} were refused with an exception but are in force on the object afterwards')
                    continue
                if got != e['valid']:
                    kind = 'non-uniform edges are refused when configured' if not e['valid'] else 'uniform increasing edges are accepted'
                    shape = 'valid' if e['valid'] else ('not increasing' if any(a >= b for a, b in zip(ints, ints[1:])) else
                                                        'narrowing-or-compensating' if len(ints) > 2 else 'short')
                    chk.violation(f'edges:{kind}:{shape}', {'property': 'C13', 'edges': list(map(float, np.asarray(ed).tolist())), 'where': wh, 'accepted': got, 'spec_valid': e['valid']},
                                  f'{wh}: edges {list(np.asarray(ed).tolist())} accepted={got}, specification valid={e["valid"]}')
        chk.traces_validated += 1
    chk.sample({'edge_list': emitted[len(emitted) // 2]['e'], 'valid': emitted[len(emitted) // 2]['valid']})


def mi_value(terms):
    return sum((c / n) * math.log(c * n / (cb * cv)) for c, cb, cv, n in terms)


def run_mia(t, d, edges, classes, precision):
    import scared
    o = scared.MIADistinguisher(bin_edges=edges, partitions=np.array(classes, dtype='int32'), precision=precision)
    o.update(t, d)
    return o, np.asarray(o.compute())


def compare_case(chk, case, res, t, d, edges, tag, key, precs=('uint32', 'float32', 'float64'), rep=1):
    """rep > 1: the whole dataset presented rep times - every count is multiplied by rep, every probability (hence the MI) is unchanged"""
    c = case['c']
    S, W, B, C = c['S'], c['W'], len(c['edges']) - 1, len(c['classes'])
    if rep > 1:
        t, d = np.tile(t, (rep, 1)), np.tile(d, (rep, 1))
    for prec in precs:
        try:
            o, got = run_mia(t, d, edges, c['classes'], prec)
        except Exception as ex:
            chk.violation(f'{tag}:MIA accepts the batch', {'property': 'C13', 'case': case, 'error': repr(ex)[:200]}, f'{tag}: {ex!r}'[:200])
            return
        acc = np.asarray(o.accumulators, dtype='float64')      # (S, B, C, W)
        want = np.zeros((S, B, C, W))
        for j, h in enumerate(res['hist']):
            w, s = j // S, j % S
            want[s, :, :, w] = np.array(h, dtype='float64') * rep
        chk.count((tag, key, prec, 'hist', rep), nontrivial=True)
        if acc.shape != want.shape or not np.array_equal(acc, want):
            chk.violation(f'{tag}:joint histogram counts each sample in the bin of the configured edges and the class of its value',
                          {'property': 'C13', 'case': case, 'edges': np.asarray(edges).tolist(), 'traces': t[:len(t) // rep].tolist(), 'precision': prec, 'repeated': rep,
                           'expected_hist_SBCW': want.tolist(), 'got': acc.tolist()}, f'{tag}/{prec}: joint histogram differs from the specification')
            continue
        for j, terms in enumerate(res['terms']):
            w, s = j // S, j % S
            chk.count((tag, key, prec, j, rep), nontrivial=len(terms) >= 2)
            if not terms:
                continue            # nothing in range for this (word, sample): MI undefined, not claimed
            want_mi = mi_value(terms)
            g = float(got[w, s])
            # _compute divides and takes logs in the accumulator dtype (float32 accumulators -> float32 arithmetic; integer -> float64)
            eps = 1.2e-7 if prec == 'float32' else 2.3e-16
            tol = 64 * eps * (4 + 4 * len(terms))
            bad = None
            if math.isnan(g) or abs(g - want_mi) > tol:
                bad = 'result equals H(B) - H(B|V) of the joint histogram'
            elif res['indep'][j] and abs(g) > tol:
                bad = 'result is zero when bins and classes are independent'
            elif g < -tol:
                bad = 'result is never negative beyond rounding'
            if bad:
                chk.violation(f'{tag}:{bad}', {'property': 'C13', 'case': case, 'precision': prec, 'repeated': rep, 'entry': [w, s], 'got': g, 'expected': want_mi, 'terms': terms},
                              f'{tag}/{prec}: MI[{w},{s}] = {g}, expected {want_mi}')


def int_cases(chk, rng):
    n = 24 if chk.tier == 'quick' else 150
    cases = []
    for i in range(n):
        nb = rng.randint(2, 5)
        width = rng.choice([1, 2, 3, 4])
        lo = rng.choice([0, 2, -4])
        if i % 8 == 7:
            nb, width = rng.choice([255, 256, 257]) if i % 16 == 7 else 256, 1         # bin counts around the capacity of an 8-bit index
        edges = [lo + k * width for k in range(nb + 1)]
        classes = rng.choice([[0, 1], [2, 0, 1], [0, 1, 2, 3], [5, 0, 300]])
        grid = list(range(lo - 2, lo + nb * width + 3)) if nb < 200 else [lo - 2, lo - 1, lo, lo + 1, lo + 100, lo + nb - 1, lo + nb, lo + nb + 1, lo + nb + 40]
        S, W = rng.choice([(1, 1), (2, 1), (2, 2), (3, 1)])
        nrows = rng.randint(1, 6) if i % 3 else rng.randint(6, 14)
        dvals = classes + ([77] if i % 2 else [])
        if i % 5 == 0:
            dvals = dvals[:-1] if len(dvals) > 2 else dvals     # one declared class stays empty
        rows = [{'t': [rng.choice(grid) for _ in range(S)], 'd': [rng.choice(dvals) for _ in range(W)]} for _ in range(nrows)]
        if i % 4 == 0:      # independent by construction: every (bin representative, class) combination equally often
            reps = [edges[0], edges[-1]]
            rows = [{'t': [x] * S, 'd': [v] * W} for x in reps for v in classes[:2]] * 2
        cases.append({'c': {'S': S, 'W': W, 'classes': classes, 'edges': edges}, 'rows': rows})
    res = st.cases_run(chk, 'MiaCases', cases, ['TotalsAreCounts'], 'CASES:integer-edges')
    pres = [('uint8', 1.0), ('int16', 1.0), ('float32', 0.25), ('float64', 0.5), ('int32', 1.0)]
    for ci, (case, rs) in enumerate(zip(cases, res)):
        dt, sc = pres[ci % len(pres)]
        c = case['c']
        if dt == 'uint8' and (min(min(r['t']) for r in case['rows']) < 0 or max(max(r['t']) for r in case['rows']) > 255):
            dt = 'int16'          # the presentation must hold the values
        t = (np.array([r['t'] for r in case['rows']], dtype='float64') * sc).astype(dt)
        d = np.array([r['d'] for r in case['rows']], dtype='uint16')
        edges = np.array(c['edges'], dtype='float64') * sc
        compare_case(chk, case, rs, t, d, edges, 'integer-edges', ci)
        # narrow count types: every histogram cell fits the type although the number of traces does not (totals are not cells)
        top = max([max(max(row) for row in h) for h in rs['hist']] + [1])
        n = len(case['rows'])
        if ci % 3 == 1 and top * (300 // n + 1) <= 255:
            compare_case(chk, case, rs, t, d, edges, 'integer-edges', ci, precs=('uint8',), rep=300 // n + 1)
        if ci % 6 == 2 and top * (66000 // n + 1) <= 65535:
            compare_case(chk, case, rs, t, d, edges, 'integer-edges', ci, precs=('uint16',), rep=66000 // n + 1)
        chk.traces_validated += 1
    chk.sample({'mia_case': cases[1], 'expected': res[1]})


def float_cases(chk, rng):
    """float edges with non-representable steps; samples on / one ulp around each edge, mid-bin, outside."""
    specs = [(0.0, 1.0, 10), (0.0, 1.0, 7), (-1.0, 1.0, 3), (0.0, 100.0, 7), (0.1, 0.7, 6), (1.0, 2.0, 10), (-3.0, 0.3, 11), (0.0, 1.0, 3), (5.0, 6.1, 11)]
    if chk.tier == 'quick':
        specs = specs[:6]
    cases, real = [], []
    # edge sets: linspace of the end points, and edges written as decimal literals / rounded values / multiples of 0.1 (equally spaced for the
    # validation, NOT the linspace of their end points: the configured edges themselves decide the bin of a sample)
    edge_sets = [np.linspace(lo, hi, nb + 1) for lo, hi, nb in specs]
    edge_sets += [np.array([k / 10 for k in range(11)]), np.round(np.linspace(0.05, 0.95, 10), 2), np.array([0.1 * k for k in range(8)]), np.array([1.1 * k for k in range(1, 8)])]
    for edges in edge_sets:
        lo, hi, nb = float(edges[0]), float(edges[-1]), len(edges) - 1
        xs = []
        for e in edges:
            xs += [e, np.nextafter(e, -np.inf), np.nextafter(e, np.inf)]
        xs += [float((a + b) / 2) for a, b in zip(edges, edges[1:])]
        xs += [lo - 1.0, hi + 1.0]
        # decimal literals a user would write
        xs += [round(lo + (hi - lo) * k / nb, 10) for k in range(nb + 1)]
        xs = [float(x) for x in xs]
        allv = sorted(set(xs) | set(float(e) for e in edges))
        rank = {v: i for i, v in enumerate(allv)}
        classes = [0, 1]
        rows = [{'t': [rank[x]], 'd': [k % 2]} for k, x in enumerate(xs)]
        cases.append({'c': {'S': 1, 'W': 1, 'classes': classes, 'edges': [rank[float(e)] for e in edges]}, 'rows': rows})
        real.append((edges, np.array([[x] for x in xs], dtype='float64'), np.array([[k % 2] for k in range(len(xs))], dtype='uint8')))
        # the same edges (float64) with float32 traces: the float32 images of the edges, their float32 neighbours, mid-bin points
        xs32 = []
        for e in edges:
            f = np.float32(e)
            xs32 += [f, np.nextafter(f, np.float32(-np.inf)), np.nextafter(f, np.float32(np.inf))]
        xs32 += [np.float32((a + b) / 2) for a, b in zip(edges, edges[1:])]
        xs32 = [x for x in xs32]
        all32 = sorted(set(float(x) for x in xs32) | set(float(e) for e in edges))
        rank32 = {v: i for i, v in enumerate(all32)}
        cases.append({'c': {'S': 1, 'W': 1, 'classes': classes, 'edges': [rank32[float(e)] for e in edges]}, 'rows': [{'t': [rank32[float(x)]], 'd': [k % 2]} for k, x in enumerate(xs32)]})
        real.append((edges, np.array([[x] for x in xs32], dtype='float32'), np.array([[k % 2] for k in range(len(xs32))], dtype='uint8')))
    res = st.cases_run(chk, 'MiaCases', cases, ['TotalsAreCounts'], 'CASES:float-edges(rank presentation)')
    for ci, (case, rs) in enumerate(zip(cases, res)):
        edges, t, d = real[ci]
        compare_case(chk, dict(case, float_edges=edges.tolist()), rs, t, d, edges, 'float-edges', ci)
        chk.traces_validated += 1


def run(chk):
    memoise_lut()
    import numba
    numba.set_num_threads(2)
    rng = random.Random(chk.seed)
    chk.rule = ('edge validation: TLC enumerates every integer list of length 1..5 over 0..6(7); each is offered (also as scaled float arrays) at the four '
                'configuration points; non-trivial = length >= 3.  Histogram/MI: driver-proposed datasets on grids containing every edge, mid-bin points and both '
                'outsides with empty / undeclared classes, and float linspace edges with samples one ulp around every edge; expected histogram and MI term '
                'lists from specs/MiaCases.tla; one evaluation = one histogram or one MI entry; non-trivial = >= 2 non-empty cells')
    chk.assumptions += ['ln evaluated with math.log on exact count ratios supplied by TLC', 'float samples/edges are presented to TLC by rank (order isomorphism); TLC does every comparison',
                        'MI of a (word, sample) with no in-range sample is undefined and not compared']
    emitted = edge_model(chk)
    edges_replay(chk, emitted)
    int_cases(chk, rng)
    float_cases(chk, rng)


def replay(chk, path):
    memoise_lut()
    rp = json.load(open(path))
    if 'where' in rp:
        got = offer(rp['where'], rp['edges'])
        print('accepted now:', got, 'specification valid:', rp['spec_valid'])
        if got != rp['spec_valid']:
            print(f'VIOLATION property=C13 replay={path}')
            return 1
        return 0
    case = rp['case']
    if 'edges' not in rp:
        print('re-run ./check C13 (MI term lists are recomputed by TLC from the seed); entry', rp.get('entry'), 'got', rp.get('got'), 'expected', rp.get('expected'))
        return 0
    edges = np.array(rp['edges'])
    rep = rp.get('repeated', 1)
    t = np.tile(np.array(rp['traces']), (rep, 1))
    d = np.tile(np.array([r['d'] for r in case['rows']], dtype='uint16'), (rep, 1))
    o, _ = run_mia(t, d, edges, case['c']['classes'], rp['precision'])
    same = np.array_equal(np.asarray(o.accumulators, dtype='float64'), np.array(rp['expected_hist_SBCW']))
    print('histogram equals specification:', same)
    if not same:
        print(f'VIOLATION property=C13 replay={path}')
        return 1
    return 0
