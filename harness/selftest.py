"""Binding self-test run by setup: a recorded trace with one corrupted field must be rejected by TLC while its
untouched neighbours are accepted (so the trace specification constrains more than length)."""
import copy
import os
import random
import sys

sys.path.insert(0, os.path.dirname(os.path.dirname(os.path.abspath(__file__))))
from harness import core  # noqa: E402

core.setup_repo_import()
from harness import disthist as dh  # noqa: E402


def main():
    rng = random.Random(7)
    c = dh.base_cfg('cpa', S=2, W=2)
    traces = []
    for i in range(3):
        tr, _ = dh.record_trace(rng, c, dh.random_rows(rng, c, 6), 'float64', 'u8')
        traces.append(tr)
    bad = copy.deepcopy(traces[1])
    upd = [e for e in bad['ev'] if e['op'] == 'update'][-1]
    upd['acc']['sxx'][0] += 1
    traces[1] = bad

    class Dummy:
        def add_tlc(self, *a):
            pass
    acc, _ = dh.validate_traces(Dummy(), traces, 'selftest')
    if acc != {1, 3}:
        print('selftest FAILED: accepted', acc)
        return 1
    print('selftest ok: corrupted trace rejected, neighbours accepted')
    return 0


if __name__ == '__main__':
    sys.exit(main())
