"""Driving the public Container / Analysis pipeline along behaviours of specs/Analysis.tla (C02, C08, C17) and
recording what the distinguisher is fed.  No expected value is decided here: expected feeds / columns come from TLC;
expected arrays are the statement's formula `chain(samples[ids][:, frame])`, `model(selection_function(metadata[ids]))`
evaluated with the same public callables."""
import numpy as np

NG = 3          # guesses of the synthetic attack selection function


def gen_arrays(rng, n, L, W):
    """the raw content of one trace set (no library involved): the same stream make_set draws from"""
    samples = rng.randint(0, 16, size=(n, L)).astype('int16')
    v = rng.randint(0, 9, size=(n, W)).astype('uint8')
    return samples, v


def frame_positions(frame, L):
    """a frame as the list of 0-based sample positions it designates, in order (Python slice / index semantics)"""
    fr = FRAMES[frame]
    if fr is None or fr is Ellipsis:
        return list(range(L))
    if isinstance(fr, slice):
        return list(range(L))[fr]
    return [int(i) for i in fr]


def make_set(rng, n, L, W, id0, sample_dtype=None):
    import scared
    samples, v = gen_arrays(rng, n, L, W)
    if sample_dtype:
        samples = samples.astype(sample_dtype)          # the same values in another storage type (e.g. big-endian files)
    ids = np.arange(id0, id0 + n, dtype='int64')
    ths = scared.traces.read_ths_from_ram(samples=samples, v=v, id=ids)
    return ths, samples, v, ids


def preprocesses():
    import scared

    @scared.preprocess
    def plus1(traces):
        return traces + 1

    @scared.preprocess
    def twice(traces):
        return traces * 2
    @scared.preprocess
    def cumsum(traces):
        # not sample-wise: every output sample mixes the samples to its left (frame selection must come first)
        return np.cumsum(traces, axis=1)
    @scared.preprocess
    def lowerhalf(traces):
        # real-valued output, negative for a zero sample: (x - 1) / 2 (in the specification: minus1, the harness halves the integer feed)
        return (traces - 1) / 2.0
    return {'plus1': plus1, 'twice': twice, 'square': scared.preprocesses.square, 'cumsum': cumsum, 'lowerhalf': lowerhalf}


FRAMES = {'all': None, 'ellipsis': ..., 'slice': slice(1, 5), 'step': slice(0, 6, 2), 'list': [0, 3, 4], 'array': np.array([5, 1, 2])}
CHAINS = [[], ['square'], ['plus1', 'twice'], ['twice', 'plus1'], ['square', 'plus1'], ['cumsum'], ['plus1', 'cumsum'], ['lowerhalf'], ['twice', 'lowerhalf']]
KINDS = ['CPA', 'DPA', 'ANOVA', 'NICV', 'SNR', 'MIA']


def selection(mode, layout='C', nclass=9, wide=False):
    """layout 'T': the attack function builds its output guess-major and returns a transposed view (not C-contiguous), the way the
    ready-made selection functions do; the values are the same"""
    import scared
    if mode == 'attack':
        @scared.attack_selection_function(guesses=range(NG))
        def sf(v, guesses):
            k_, dt_ = (300, 'uint16') if wide else (1, 'uint8')        # wide: intermediate values well beyond one byte (up to 2400)
            if layout == 'T':
                buf = np.empty((len(guesses), v.shape[0], v.shape[1]), dtype=dt_)
                for g in guesses:
                    buf[g] = ((v + g) % nclass).astype(dt_) * k_
                return buf.swapaxes(0, 1)
            out = np.empty((v.shape[0], len(guesses), v.shape[1]), dtype=dt_)
            for g in guesses:
                out[:, g, :] = ((v + g) % nclass).astype(dt_) * k_
            return np.asfortranarray(out) if layout == 'F' else out      # 'F': Fortran-contiguous, as fancy indexing of the words axis yields
        return sf

    @scared.reverse_selection_function
    def rsf(v):
        return (v % nclass).astype('uint16') * 300 if wide else v % nclass
    return rsf


def build(kind, mode, precision, convergence_step=None, layout='C', nclass=9, declared=None, wide=False):
    """(analysis object, factory of the matching standalone distinguisher)"""
    import scared
    wide = wide and kind == 'CPA'                  # values beyond one byte with the Value model (Pearson takes any values; classes / bits do not)
    sf = selection(mode, layout, nclass, wide)
    model = {'CPA': scared.Value() if wide else scared.HammingWeight(), 'DPA': scared.Monobit(0)}.get(kind, scared.Value())
    kw = {}
    dkw = {}
    if kind in ('ANOVA', 'NICV', 'SNR', 'MIA'):
        # declared < nclass: the values declared .. nclass-1 occur in the data but belong to no declared class (they are ignored)
        kw['partitions'] = range(declared or nclass)
        dkw['partitions'] = range(declared or nclass)
    if kind == 'MIA':
        kw['bin_edges'] = np.arange(0, 1100, 100).astype('float64') if False else None
    if mode == 'attack':
        cls = getattr(scared, kind + 'Attack')
        args = dict(selection_function=sf, model=model, discriminant=scared.maxabs, precision=precision, convergence_step=convergence_step)
    else:
        cls = getattr(scared, kind + 'Reverse')
        args = dict(selection_function=sf, model=model, precision=precision)
    if kind == 'MIA':
        kw['bin_edges'] = MIA_EDGES
        dkw['bin_edges'] = MIA_EDGES
    a = cls(**args, **kw)
    dcls = getattr(scared, kind + 'Distinguisher')
    return a, (lambda: dcls(precision=precision, **dkw))


MIA_EDGES = np.linspace(0, 32, 9)          # samples are 0..15 (up to 31 after the x+1, 2x chains; squares beyond 32 are discarded as out of range)


class Recorder:
    """Instance-level wrappers around process / update / compute_results of one analysis object."""

    def __init__(self, a):
        self.a = a
        self.batches = []      # (ids seen by process, traces given to update, data given to update)
        self.computes = []     # processed_traces at every compute_results
        self._ids = None
        p0, u0, c0 = a.process, a.update, a.compute_results

        def process(batch):
            self._ids = np.array(batch.metadatas['id']).copy()
            return p0(batch)

        def update(traces, data):
            self.batches.append((self._ids, np.array(traces).copy(), np.array(data).copy()))
            return u0(traces=traces, data=data)

        def compute_results():
            r = c0()
            self.computes.append(int(a.processed_traces))
            return r
        a.process, a.update, a.compute_results = process, update, compute_results


def expected_arrays(analysis, samples, v, ids_local, frame, chain, pp):
    """the statement's formula for what update must receive for the traces `ids_local` (0-based rows of this set)"""
    rows = samples[ids_local]
    fr = FRAMES[frame]
    x = rows if fr is None else rows[:, fr]
    for name in chain:
        x = pp[name](x)
    data = analysis.model(analysis.selection_function(v=v[ids_local]))
    return x, data
