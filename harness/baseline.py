#!/venv/bin/python
"""Run the repository's pinned test suite with the verification guard OFF and compare with BASELINE.json:
every test of stable_pass must still pass. Exit 0 iff so."""
import json
import os
import subprocess
import sys
import tempfile
import xml.etree.ElementTree as ET


def main():
    base = json.load(open('/root/.vp/BASELINE.json'))
    env = {k: v for k, v in os.environ.items() if k != 'SCARED_VERIF'}
    fd, path = tempfile.mkstemp(suffix='.junit.xml')
    os.close(fd)
    args = sys.argv[1:]
    cmd = ['/venv/bin/python', '-m', 'pytest', '-ra', '-q', '-p', 'no:cacheprovider', '--timeout=900',
           '--continue-on-collection-errors', f'--junitxml={path}'] + args
    p = subprocess.run(cmd, cwd=(os.environ.get('VERIF_REPO') or '/repo'), env=env, stdout=subprocess.PIPE, stderr=subprocess.STDOUT, text=True)
    passed = set()
    try:
        for tc in ET.parse(path).getroot().iter('testcase'):
            if not any(ch.tag in ('failure', 'error', 'skipped') for ch in tc):
                passed.add(f"{tc.get('classname')}::{tc.get('name')}")
    finally:
        os.unlink(path)
    stable = set(base['stable_pass'])
    if args:
        stable = {s for s in stable if any(s.startswith(a.rstrip('/').replace('/', '.').replace('.py', '')) for a in args)}
    missing = sorted(stable - passed)
    print(p.stdout[-600:])
    print(f'baseline: {len(stable)} stable tests, {len(stable & passed)} passed, {len(missing)} missing')
    for m in missing[:40]:
        print('  NOT PASSING:', m)
    return 0 if not missing else 1


if __name__ == '__main__':
    sys.exit(main())
