"""Thin driver around TLC: run a module/cfg, parse statistics, EMIT/ACCEPT/RES lines, coverage and errors.

Nothing here decides a property: it only transports values between TLC and the Python replay harness.
"""
import json
import os
import re
import shutil
import subprocess
import tempfile
import time

SPECS = os.path.join(os.path.dirname(os.path.dirname(os.path.abspath(__file__))), 'specs')
JAR = '/opt/veriftools/tla/tla2tools.jar:/opt/veriftools/tla/CommunityModules-deps.jar'

_STATS = re.compile(r'(\d+) states generated, (\d+) distinct states found, (\d+) states left on queue')
_SIMSTATS = re.compile(r'The number of states generated: (\d+)')
_TAGGED = re.compile(r'^<<"([A-Z]+)", (.*)>>$')
_COV = re.compile(r'^<(\w+) line (\d+), col \d+ to line \d+, col \d+ of module (\w+)>: (\d+):(\d+)')


class TLCError(Exception):
    """Machinery failure (TLC crashed, spec error): exit code 2, never a verdict."""


class TLCResult:
    def __init__(self):
        self.stdout = ''
        self.generated = 0
        self.distinct = 0
        self.tagged = {}        # tag -> list of parsed payloads
        self.violated = []      # names of violated invariants / properties
        self.errors = []        # other error lines
        self.coverage = {}      # action name -> (distinct, generated)
        self.wall_s = 0.0
        self.completed = False
        self.error_trace = []

    def emits(self, tag='EMIT'):
        return self.tagged.get(tag, [])


def _parse_payload(text):
    """Payload printed by PrintT(<<"TAG", a, b, ...>>): a JSON-encoded string (from ToJson) or TLA+ ints/strings."""
    text = text.strip()
    if text.startswith('"'):
        # one TLA+ string holding JSON (possibly followed by nothing else)
        try:
            inner = json.loads(text)
            try:
                return json.loads(inner)
            except ValueError:
                return inner
        except ValueError:
            pass
    # comma separated simple values
    parts = []
    for p in _split_top(text):
        p = p.strip()
        if re.fullmatch(r'-?\d+', p):
            parts.append(int(p))
        elif p in ('TRUE', 'FALSE'):
            parts.append(p == 'TRUE')
        elif p.startswith('"'):
            s = json.loads(p)
            try:
                parts.append(json.loads(s))
            except ValueError:
                parts.append(s)
        else:
            parts.append(p)
    return parts if len(parts) != 1 else parts[0]


def _split_top(text):
    out, depth, cur, instr, esc = [], 0, [], False, False
    for ch in text:
        if instr:
            cur.append(ch)
            if esc:
                esc = False
            elif ch == '\\':
                esc = True
            elif ch == '"':
                instr = False
            continue
        if ch == '"':
            instr = True
            cur.append(ch)
        elif ch in '<[({':
            depth += 1
            cur.append(ch)
        elif ch in '>])}':
            depth -= 1
            cur.append(ch)
        elif ch == ',' and depth == 0:
            out.append(''.join(cur))
            cur = []
        else:
            cur.append(ch)
    if cur:
        out.append(''.join(cur))
    return out


def run(module, cfg=None, *, workers=1, env=None, simulate=None, depth=None, seed=None, timeout=1800,
        coverage=False, deadlock=False, extra=(), specs_dir=None, jvm=(), allow_violation=True, heap='4g', cfg_text=None, defs=None):
    """Run TLC on specs/<module>.tla with specs/<cfg> (or the literal cfg_text). Returns TLCResult.
    Raises TLCError on machinery failure.
    defs: {constant name: TLA+ expression text} for constants the cfg grammar cannot express (tuples, records):
    a wrapper module extending <module> is generated in the scratch directory and the constants are substituted."""
    specs_dir = specs_dir or SPECS
    cfg = cfg or (module + '.cfg')
    meta = tempfile.mkdtemp(prefix='verif_tlc_')
    run_dir = specs_dir
    if defs:
        assert cfg_text is not None
        wrapper = 'MC' + module
        with open(os.path.join(meta, wrapper + '.tla'), 'w') as f:
            f.write(f'---- MODULE {wrapper} ----\nEXTENDS {module}\n')
            for k, v in defs.items():
                f.write(f'def_{k} == {v}\n')
            f.write('====\n')
        cfg_text = cfg_text + ''.join(f'CONSTANT {k} <- def_{k}\n' for k in defs)
        jvm = tuple(jvm) + (f'-DTLA-Library={specs_dir}',)
        module = wrapper
        run_dir = meta
    if cfg_text is not None:
        cfg = os.path.join(meta, 'generated.cfg')
        with open(cfg, 'w') as f:
            f.write(cfg_text)
    jtmp = os.path.join(meta, 'jtmp')   # TLC creates a tlc-<n> directory in java.io.tmpdir and leaves it behind: keep it in the scratch directory
    os.makedirs(jtmp, exist_ok=True)
    cmd = ['java', '-XX:+UseParallelGC', '-Xmx' + heap, '-Xss64m', '-Djava.io.tmpdir=' + jtmp, *jvm, '-cp', JAR, 'tlc2.TLC',
           '-workers', str(workers), '-metadir', os.path.join(meta, 'states'), '-noGenerateSpecTE', '-config', cfg]
    if not deadlock:
        cmd.append('-deadlock')   # -deadlock DISABLES deadlock checking
    if coverage:
        cmd += ['-coverage', '1']
    if simulate is not None:
        cmd += ['-simulate', simulate]
        if depth is not None:
            cmd += ['-depth', str(depth)]
    if seed is not None:
        cmd += ['-seed', str(seed)]
    cmd += list(extra)
    cmd.append(module + '.tla')
    e = dict(os.environ)
    if env:
        e.update({k: str(v) for k, v in env.items()})
    t0 = time.time()
    try:
        p = subprocess.run(cmd, cwd=run_dir, env=e, stdout=subprocess.PIPE, stderr=subprocess.STDOUT,
                           timeout=timeout, text=True)
    except subprocess.TimeoutExpired as ex:
        shutil.rmtree(meta, ignore_errors=True)
        if simulate is not None:
            out = ex.stdout if isinstance(ex.stdout, str) else (ex.stdout or b'').decode('utf8', 'replace')
            r = _parse(out)
            r.wall_s = time.time() - t0
            return r
        raise TLCError(f'TLC timeout after {timeout}s: {module} {cfg}')
    finally:
        shutil.rmtree(meta, ignore_errors=True)
    r = _parse(p.stdout)
    r.wall_s = time.time() - t0
    r.returncode = p.returncode
    if r.errors and not r.violated:
        raise TLCError(f'TLC failed on {module}/{cfg}:\n' + '\n'.join(r.errors[:20]) + '\n--- tail ---\n' + p.stdout[-3000:])
    if not r.completed and not r.violated and simulate is None:
        raise TLCError(f'TLC did not complete on {module}/{cfg}:\n' + p.stdout[-3000:])
    if r.violated and not allow_violation:
        raise TLCError(f'unexpected violation of {r.violated} in {module}/{cfg}:\n' + p.stdout[-3000:])
    return r


def _parse(out):
    r = TLCResult()
    r.stdout = out
    in_err = False
    for line in _join_wrapped(out.splitlines()):
        m = _TAGGED.match(line)
        if m:
            try:
                r.tagged.setdefault(m.group(1), []).append(_parse_payload(m.group(2)))
            except Exception as ex:  # unparsable payload is a machinery failure
                r.errors.append(f'unparsable tagged line: {line[:200]} ({ex})')
            continue
        m = _STATS.search(line)
        if m:
            r.generated, r.distinct = int(m.group(1)), int(m.group(2))
            continue
        m = _SIMSTATS.search(line)
        if m:
            r.generated = int(m.group(1))
            r.distinct = max(r.distinct, 1)
            continue
        if 'Model checking completed. No error has been found.' in line:
            r.completed = True
        m = re.match(r'Error: Invariant (\w+) is violated', line)
        if m:
            r.violated.append(m.group(1))
            in_err = True
            continue
        m = re.match(r'Error: Action property (\w+) is violated', line)
        if m:
            r.violated.append(m.group(1))
            in_err = True
            continue
        if line.startswith('Error: Temporal properties were violated') or 'is violated' in line and line.startswith('Error:'):
            r.violated.append('TEMPORAL')
            in_err = True
            continue
        if line.startswith('Error: Deadlock reached'):
            r.violated.append('DEADLOCK')
            in_err = True
            continue
        if line.startswith('Error:') and 'The behavior up to this point is' not in line and 'The following behavior constitutes' not in line:
            r.errors.append(line)
        if in_err:
            r.error_trace.append(line)
        m = _COV.match(line)
        if m:
            name = m.group(1)
            d, g = int(m.group(4)), int(m.group(5))
            od, og = r.coverage.get(name, (0, 0))
            r.coverage[name] = (od + d, og + g)
    return r


def _join_wrapped(lines):
    """TLC pretty-prints long tuples over several lines (`<< "TAG",` / continuation lines / `... >>`): join them back."""
    out, buf, depth = [], None, 0
    for line in lines:
        if buf is None:
            if re.match(r'^<< "[A-Z]+",\s*$', line) or (line.startswith('<< "') and _balance(line) > 0):
                buf, depth = [line.strip()], _balance(line)
                continue
            out.append(line)
        else:
            buf.append(line.strip())
            depth += _balance(line)
            if depth <= 0:
                joined = ' '.join(buf)
                joined = re.sub(r'^<< "', '<<"', joined)
                joined = re.sub(r'\s*>>$', '>>', joined)
                out.append(joined)
                buf = None
    if buf:
        out.append(' '.join(buf))
    return out


def _balance(line):
    d, instr, esc = 0, False, False
    i = 0
    while i < len(line):
        ch = line[i]
        if instr:
            if esc:
                esc = False
            elif ch == '\\':
                esc = True
            elif ch == '"':
                instr = False
        elif ch == '"':
            instr = True
        elif line.startswith('<<', i):
            d += 1
            i += 1
        elif line.startswith('>>', i):
            d -= 1
            i += 1
        i += 1
    return d


def sany(module, specs_dir=None):
    specs_dir = specs_dir or SPECS
    p = subprocess.run(['java', '-cp', JAR, 'tla2sany.SANY', module + '.tla'], cwd=specs_dir,
                       stdout=subprocess.PIPE, stderr=subprocess.STDOUT, text=True)
    ok = p.returncode == 0 and 'Semantic errors' not in p.stdout and 'Parse Error' not in p.stdout and '*** Errors' not in p.stdout
    return ok, p.stdout


def tla(v):
    """Python value -> TLA+ expression text (ints, bools, strings, lists as sequences, sets, dicts as records)."""
    if isinstance(v, bool):
        return 'TRUE' if v else 'FALSE'
    if isinstance(v, int):
        return str(v)
    if isinstance(v, str):
        return json.dumps(v)
    if isinstance(v, (list, tuple)):
        return '<<' + ', '.join(tla(x) for x in v) + '>>'
    if isinstance(v, (set, frozenset)):
        return '{' + ', '.join(tla(x) for x in sorted(v, key=str)) + '}'
    if isinstance(v, dict):
        return '[' + ', '.join(f'{k} |-> {tla(x)}' for k, x in v.items()) + ']'
    raise TypeError(type(v))


def cfg(spec='Spec', constants=None, invariants=(), properties=(), constraint=None, extra=''):
    """Build a cfg text; constants: {name: python value of a cfg-expressible kind (int, str, bool, set of those)}."""
    lines = [f'SPECIFICATION {spec}']
    for k, v in (constants or {}).items():
        lines.append(f'CONSTANT {k} = {tla(v)}')
    lines += [f'INVARIANT {i}' for i in invariants]
    lines += [f'PROPERTY {p}' for p in properties]
    if constraint:
        lines.append(f'CONSTRAINT {constraint}')
    lines.append('CHECK_DEADLOCK FALSE')
    return '\n'.join(lines) + '\n' + extra
