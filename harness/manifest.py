#!/usr/bin/env python3
"""Regenerates /verif/MANIFEST.json from the table below (so that it is always schema-valid)."""
import json
import os

VERIF = os.path.dirname(os.path.dirname(os.path.abspath(__file__)))

# property id -> (technique, level text, level note, design ref)
CLAIMED = {
    'C01': ('TLA+ history machine (Distinguisher.tla) model-checked by TLC; every TLC-generated history replayed on the real '
            'objects with state projection compared after each call; recorded executions validated by TLC (DistinguisherTrace.tla)',
            'TLC explores every ordered partition x compute placement over driver-proposed datasets and checks that the state is a '
            'function of the consumed prefix; each history is then executed on the real distinguishers (10 kinds + t-test accumulator, '
            'both precisions, several dtypes) with exact comparison of the projected accumulators after every call, bit-purity and '
            'repeatability of compute, and bit-equality with a one-shot object; random longer executions are validated by TLC.',
            'Exact regime (integer-valued samples, exactly representable sums); datasets sampled by a seeded driver, histories exhaustive '
            'up to the bound; LUT builder memoised per class list; inexact regime compared with an error envelope outside TLC.',
            '6/C01'),
    'C16': ('TLA+ mechanism model of update() step order (DistinguisherK.tla: repaired order verified, pinned order refuted) + '
            'history machine with rejected calls (Distinguisher.tla) model-checked by TLC; histories replayed on the real objects; '
            'recorded executions with injected faults validated by TLC',
            'TLC checks on the code-shaped model that a raise at any statement of update() leaves marker/count/accumulators as at call '
            'entry and that a valid call is always accepted; every history with <= 2-3 rejected calls of every applicable fault kind at '
            'every position (incl. first call) is replayed on all real distinguishers: the fault is refused, the state is bit-identical, '
            'later results equal those of the accepted batches only.',
            'Fault kinds: non-ndarray arguments, row-count mismatch, trace-length / word-count mismatch, DPA non-binary or float data, '
            'undeclared classes out of range, template word count, matching with wrong trace size. Memory-estimate rejection not injected.',
            '6/C16'),
}

NOT_APPLICABLE = {}

ALL = ['C%02d' % i for i in range(1, 21)]


def build():
    checks = []
    for pid in ALL:
        if pid not in CLAIMED:
            continue
        tech, text, note, ref = CLAIMED[pid]
        checks.append({
            'property_id': pid,
            'quick_cmd': f'./check {pid} --tier quick',
            'thorough_cmd': f'./check {pid} --tier thorough',
            'evidence_file': f'/verif/evidence/{pid}.json',
            'replay_cmd_template': f'./check {pid} --replay {{path}}',
            'engine': 'tlc+replay',
            'level_claimed': {'category': 'model_checking', 'text': text, 'design_ref': 'DESIGN.md section ' + ref},
            'level_note': note,
            'technique': tech,
        })
    na = []
    for pid in ALL:
        if pid in CLAIMED:
            continue
        reason = NOT_APPLICABLE.get(pid, 'check not built yet in this round (planned with the same TLA+ technique, see DESIGN.md section 6); not claimed')
        na.append({'property_id': pid, 'reason': reason})
    m = {
        'version': 1,
        'setup_cmd': './setup.sh',
        'hooks': {
            'guard': 'SCARED_VERIF',
            'enable': 'environment variable SCARED_VERIF=1, exported by ./check itself before scared is imported from /repo (PYTHONPATH); nothing to build',
            'baseline_off_cmd': '/verif/harness/baseline.py',
            'source_commits': HOOK_COMMITS,
            'add_only': True,
        },
        'engines': [
            {'name': 'tlc+replay', 'path': '/verif/check', 'serves_properties': sorted(CLAIMED),
             'kind_free_text': 'TLA+ specifications in /verif/specs checked with TLC 1.8; TLC-generated behaviours replayed on the real code '
                               '(spec->code) and executions recorded from the real code validated by TLC (code->spec); harness in /verif/harness'},
        ],
        'checks': checks,
        'not_applicable': na,
        'notes': 'Exit 0 = held on everything explored; exit 1 + VIOLATION line = violation with replay file; exit 2 = machinery failure. '
                 'Known findings and fixed defects: /verif/known_findings.txt. Seeded changes: /verif/seeded/.',
    }
    return m


HOOK_COMMITS = []

if __name__ == '__main__':
    m = build()
    with open(os.path.join(VERIF, 'MANIFEST.json'), 'w') as f:
        json.dump(m, f, indent=1)
        f.write('\n')
    print('MANIFEST.json written:', len(m['checks']), 'checks,', len(m['not_applicable']), 'not claimed')
