#!/usr/bin/env python3
"""Regenerates /verif/MANIFEST.json from the table below (so that it is always schema-valid)."""
import json
import os

VERIF = os.path.dirname(os.path.dirname(os.path.abspath(__file__)))

# property id -> (technique, level text, level note, design ref)
CLAIMED = {
    'C01': ('TLA+ history machine (Distinguisher.tla) model-checked by TLC; every TLC-generated history replayed on the real '
            'objects with state projection compared after each call; recorded executions validated by TLC (DistinguisherTrace.tla)',
            'TLC explores every ordered partition x compute placement over driver-proposed datasets and checks that the state is a '
            'function of the consumed prefix; each history is then executed on the real distinguishers (10 kinds + t-test accumulator, '
            'both precisions, several dtypes) with exact comparison of the projected accumulators after every call, bit-purity and '
            'repeatability of compute, and bit-equality with a one-shot object; random longer executions are validated by TLC.',
            'Exact regime (integer-valued samples, exactly representable sums); datasets sampled by a seeded driver, histories exhaustive '
            'up to the bound; LUT builder memoised per class list; inexact regime compared with an error envelope outside TLC.',
            '6/C01'),
    'C15': ('TLA+ definitions of population count, bit extraction, grouping along an axis and NaN-ignoring reductions by index arithmetic (Models.tla); TLC enumerates every uint8/uint16 value and every small '
            'float array (ModelsEnum.tla); all states replayed on HammingWeight / Monobit / Value and the five discriminants',
            'Exhaustive over all 65 536 16-bit words (two formulations of the population count agree on each; every bit); uint32/uint64 per byte lane exhaustive over three backgrounds plus random; '
            'HammingWeight(nb_words) over shapes <= 3x3x4, every axis in both spellings, k = 1..3; every 2x2 (2x3) array over {-2..2, NaN} for every discriminant and axis.',
            'NaN sentinel inside the specification; Monobit masks must be representable in the data dtype; discriminants on >= 2-D arrays.', '6/C15'),
    'C16': ('TLA+ mechanism model of update() step order (DistinguisherK.tla: repaired order verified, pinned order refuted) + '
            'history machine with rejected calls (Distinguisher.tla) model-checked by TLC; histories replayed on the real objects; '
            'recorded executions with injected faults validated by TLC',
            'TLC checks on the code-shaped model that a raise at any statement of update() leaves marker/count/accumulators as at call '
            'entry and that a valid call is always accepted; every history with <= 2-3 rejected calls of every applicable fault kind at '
            'every position (incl. first call) is replayed on all real distinguishers: the fault is refused, the state is bit-identical, '
            'later results equal those of the accepted batches only.',
            'Fault kinds: non-ndarray arguments, row-count mismatch, trace-length / word-count mismatch, DPA non-binary or float data, '
            'undeclared classes out of range, template word count, matching with wrong trace size. Memory-estimate rejection not injected.',
            '6/C16'),


    'C02': ('TLA+ model of Container slice construction, the Analysis.run loop, what a Container feeds for a trace and the batch-size rule (Analysis.tla, ContainerFeed.tla, BatchRule.tla) model-checked by TLC for every set size / batch size / 1-3 runs; '
            'generated behaviours executed through the public Container/Attack/Reverse API with recorded feeds compared to the specification',
            'TLC proves on the bounded domain that the batches tile the trace set in order (tail batch, one-trace tail, sets smaller than a batch), and refutes slice variants that drop or repeat a trace; '
            'each behaviour is run on the 12 analysis classes with frames and preprocess chains: ids, arrays handed to update, compute points, bit-identical one-shot results, scores = discriminant(results), '
            'accumulation over repeated runs; Container.batch_size equals the specified rule at every table threshold and MB setting.',
            'Exact regime (integer samples); the arrays update receives are compared with the feed TLC derives (ContainerFeed.tla: frame first, then the chain; the reverse order refuted on the replayed cases); every generated behaviour is also executed on one cheap class (no sampling of the run-loop arithmetic); frame=int outside the quantifier.', '6/C02'),
    'C05': ('TLA+ specification of AES from FIPS-197 first principles (AES.tla) run as a step machine (AESRun.tla: one transition per round operation, encrypt then decrypt), structural model of the '
            'stop-point construction (AESStops.tla, exhaustive over 312 stop points, off-by-one variant refuted), single operations (AESOps.tla), trace validation of recorded stop-point sequences (AESTrace.tla)',
            'TLC reproduces FIPS-197 Appendix C.1-C.3 and A.1, checks decrypt(encrypt(x)) = x and inverse operations on every visited state; every behaviour trail is compared with the real encrypt/decrypt at every '
            '(at_round, after_step) in the four broadcasting shapes and five dtypes with caller arrays unchanged; every byte value at every state position for every round operation; recorded sequences validated pairwise.',
            'Keys and blocks are sampled (FIPS examples, structured, seeded random); per-table-entry and per-position coverage is exhaustive.', '6/C05'),
    'C06': ('TLA+ specification of DES/TDES from FIPS 46-3 on bit sequences (DES.tla: IP, E by formula, FP = IP^-1, S-boxes in row/column form) run as a Feistel step machine with EDE passes (DESRun.tla), primitives (DESOps.tla)',
            'TLC reproduces the classic known answer, checks decrypt(encrypt(x)) = x, FP o IP = id, P^-1 o P = id, parity irrelevance; every behaviour is compared with the real code at every at_des x at_round x after_step x '
            '{encrypt, decrypt} (ten documented views), with master and pre-expanded keys, four broadcasting shapes, caller arrays unchanged; all 8 x 64 S-box inputs; permutations on all unit vectors, all-ones and random vectors.',
            'Keys and blocks sampled; quick tier restricts most behaviours to rounds 0, 1, 7, 14, 15 (one behaviour per key length covers all 16).', '6/C06'),
    'C07': ('TLA+ definitions of every ready-made selection function (SelAES.tla, SelDES.tla: local computation, designated round key, targeted word of the real cipher run) with the theorem Hyp(in, ExpectedKey[w], w) = Target '
            'checked by TLC on every behaviour of the FIPS step machines; hypothesis tables for all guesses (SelAESCases / SelDESCases) compared with the real functions',
            'For AES-128/192/256 and DES behaviours TLC proves the theorem for all 5 + 8 functions and all words; the real functions (encrypt and decrypt namespaces) are compared with the full tables for every guess and word '
            'on non-square batches, expected-key functions with the specification round keys, true-key columns with the trail, words/guesses selections with slices of the full output.',
            'Keys sampled; DES functions on single DES.', '6/C07'),
    'C08': ('TLA+ model of the convergence bookkeeping inside the run loop (Analysis.tla) model-checked by TLC for every (set sizes, batch size, step, runs) in the bound; generated behaviours executed on real attacks',
            'TLC checks strictly increasing points, in-loop spacing >= step, remainder only as last of a run, last point = processed, columns taken at fresh computes; each behaviour is executed on CPA/DPA/ANOVA/NICV/SNR/MIA '
            'attacks: positions equal the specification, every column bit-identical to fresh prefix scores, last column = final scores, results/scores identical without convergence.',
            'Exact regime; observed convergence points of every generated behaviour are judged by the property alone (AnalysisTrace.tla; final remainder = last point of a run closer than one step to its predecessor, the same formula checked on the mechanism model as OrdinarySpacing); template attacks included.', '6/C08'),
    'C03': ('TLA+ definitions (Stats.tla) enumerated exhaustively by TLC over small observation domains (StatsEnum.tla) with K=P lemmas; every '
            'enumerated state and driver-proposed multi-dimensional datasets (StatsCases.tla) replayed on the real CPA/CPA-alternative/DPA distinguishers',
            'TLC enumerates every multiset of 2..4(5) observations over a 4x4 grid and checks in each state that two formulations of Pearson agree, |r|<=1, the '
            'formulas the code evaluates on its accumulators (incl. IEEE division, inf->nan) equal the definition, NaN exactly for constant columns / empty bit class and '
            'never infinite; every state is executed on the three real distinguishers in both precisions and cycling dtypes; layout (word dims..., sample) checked on '
            'multi-dimensional datasets against per-entry certificates computed by TLC.',
            'Integer-valued inputs (the regime of the NaN clause); sqrt evaluated in Python on exact certificates; tolerance derived from data conditioning.', '6/C03'),
    'C04': ('TLA+ definitions of F / NICV / SNR (Stats.tla) enumerated exhaustively by TLC (StatsEnum.tla) with K=P, order/extra-class invariance and SST=SSB+SSW lemmas; '
            'states and driver-proposed unbalanced / automatic-class datasets replayed on the real ANOVA/NICV/SNR distinguishers',
            'Every multiset of 2..4(5) observations over x in 0..3, v in {0,1,2,5} with declared, undeclared and always-empty classes: TLC proves on the bounded domain that the '
            'three _compute_metric formulas equal the textbook definitions over non-empty classes and that no result is infinite; each state is executed on the real objects '
            '(both precisions); 3..12 declared classes and automatic class sets with maxima in every threshold range are compared against exact rationals.',
            'Exact rational definitions; float comparison within 64 eps x cancellation factor; LUT builder memoised.', '6/C04'),
    'C09': ('TLA+ model of TTestAnalysis.run with the main thread and the two accumulator threads at statement-group granularity (TTest.tla: all interleavings, injected failures, liveness under weak fairness, shared-accumulator variant refuted); '
            'Welch certificates in exact rationals (TTestCases.tla, with the replication lemma used for very large batches); runs of different sizes (NB, NB2); every TLC-generated batch-level schedule replayed deterministically on the real TTestAnalysis through a gate preprocess',
            'TLC proves termination, raises-iff-failed, no torn read of an accumulator, result from all batches of all runs for every interleaving with <= 3 batches per set, 2 runs and a failure at every position; each distinct schedule is '
            'forced on the real threads (order confirmed by the gate log): result, counts and exception propagation are compared with the exact Welch value; free-running runs with random delays and thread counts.',
            'Interleavings inside the numba kernel are not controllable (disjoint accumulators shown on the model); sqrt evaluated in Python on exact certificates.', '6/C09'),
    'C10': ('TLA+ model of the code-shaped AES forward/backward expansion loops against the FIPS recurrence (AESKeys.tla, exhaustive over every window and target column), window-recovery lemma (AESRun.tla), DES schedule '
            'from PC-1 / shifts / PC-2 and parity lemmas (DESKeys.tla); outputs of the real key_expansion / key_schedule / inv_key_schedule / get_master_key judged by TLC',
            'TLC checks K = P for every (col_in, col_out) of the three key sizes and that every window of Nk words regenerates the schedule; every real key_expansion output for every window and target, key_schedule and '
            'inv_key_schedule(0..10) are accepted by TLC; DES key_schedule for all interrupt rounds incl. all 64 single-bit keys; get_master_key from every round key returns the key up to parity (judged by TLC).',
            'Keys sampled; single-key layout quirk of key_schedule compared after flattening.', '6/C10'),
    'C11': ('TLA+ concurrency model of both accumulation kernels at loop-nest granularity (KernelRace.tla: all interleavings of prange iterations, read/write steps), dtype-of-squaring '
            'model (SquareK.tla), kernel-sequence history machine (KernelSeq.tla) model-checked by TLC; histories replayed on the real objects with the kernel forced per batch through the '
            'SCARED_VERIF hook under several thread counts; unforced runs validated against the choice-rule model',
            'TLC explores every interleaving of the parallel iterations of the four kernels on small instances (no concurrent writers of a cell, final memory = contribution; racy variant refuted), '
            'and every batch split x every kernel sequence; each is executed on the real partitioned / template-build objects with forced kernels and 1/2/16 threads: state equals the '
            'specification after every batch, results bit-identical across all sequences and thread counts in the exact regime, incl. float32 traces with a 2^12 offset under float64 precision.',
            'Intra-kernel interleavings are exhaustive on the model, sampled on the implementation; hook = SCARED_VERIF kernel forcing/logging (add-only).', '6/C11'),
    'C12': ('TLA+ model of the class-set derivation and value->class lookup (Partitions.tla, PartitionsMC.tla: repaired threshold loop verified for every maximum, pinned loop '
            'refuted), class-identity lemmas (ClassId.tla, StatsEnum.tla), history machine (Distinguisher.tla) with by-value state; replayed on real ANOVA/NICV/SNR/MIA/template objects and attacks',
            'Exhaustive over first-batch maxima 0..300; every update/compute history over datasets with undeclared values and rotated / permuted / gapped class lists with the state '
            'compared by value after each call; results for (order, permuted, superset, undeclared rows removed) against the specification value; template outputs permuted with the class list.',
            'Template-DPA hypotheses restricted to declared values; class values within the lookup table range.', '6/C12'),
    'C13': ('TLA+ specification of bin-by-comparison, joint histogram and MI term lists (Mia.tla, MiaCases.tla) and of the edge validation rule (MiaEdges.tla: exhaustive over integer edge '
            'lists, repaired rule verified, pinned rule refuted); every edge list and driver-proposed datasets replayed on the real MIA distinguisher / attack / reverse',
            'TLC enumerates every integer edge list of length <= 5 over 0..6 and proves acceptance <=> increasing and equally spaced; each list is offered at the four configuration points; '
            'joint histograms of datasets containing every edge, mid-bin points, outsides, empty and undeclared classes equal the specification exactly (also float linspace edges with samples '
            'one ulp around each edge, floats presented by rank); compute() equals the exact term list under math.log, zero under independence, non-negative.',
            'ln is a primitive evaluated in Python on exact count ratios; floats reach TLC only through their order.', '6/C13'),
    'C14': ('TLA+ definitions of class means, unbiased/pooled covariance, exact (pseudo-)inverse and Mahalanobis scores in rationals (Tpl.tla, TplCases.tla) with K=P and pseudo-inverse '
            'lemmas checked by TLC; cases executed through the public TemplateAttack / TemplateDPAAttack on containers',
            'For each driver-proposed building/matching set TLC checks PSD, A P A = A, P A P = P and that the code-shaped formulas equal the definitions (pinned single-trace rule refuted); '
            'templates, pooled covariance, pseudo-inverse and static / DPA scores of the real attacks (several batch sizes, both precisions, class lists with gaps) equal the exact rationals; '
            'run before build refused.',
            'Trace length <= 2 (exact pseudo-inverse); ScalingLemma (TLC) carries exactly-evaluated cases to samples of very different magnitude; profiles built in two steps; covariance/scores claimed when every declared class has >= 2 building traces; building sets are sampled, not enumerated.', '6/C14'),
    'C17': ('TLA+ pipeline specification (PipelineAES.tla, PipelineDES.tla on top of the selection-function theorem of C07 and the FIPS key schedules): intermediate under the true key, leakage model, bounded noise, '
            'trace matrix and identifiability of the true key among the offered guesses, all computed / checked by TLC; the emitted traces are attacked through the public Container / selection function / model / discriminant / Attack pipeline',
            'For each key x selection function x attack class x batch size TLC emits the simulated traces and proves that no wrong guess is indistinguishable from the true key on that input set; CPA, DPA, ANOVA, NICV, SNR, MIA and '
            'template-DPA must give their unique highest score, for every attacked word, to the guess equal to the specification key word, which must also be what compute_expected_key returns.',
            'Keys sampled; ciphertexts for last-round functions from scared encrypt (C05/C06); fixed wide margin (signal step 4, noise amplitude 1); AddRoundKey targets only with the signed CPA discriminant.', '6/C17'),
    'C18': ('TLA+ definitions of the documented pair lists and operators on dyadic numbers, first-order formulas, time-domain circular cross-correlation and the DFT over Gaussian integers '
            '(Preprocess.tla, PreprocessCases.tla) evaluated by TLC for every offered configuration; executed on the real preprocess classes',
            'TLC checks for every configuration that the pair list has no duplicate and the documented length and computes exact output rows (values up to 2^62 as m*2^e); every frame form x frame_2 x mode x '
            'distance x operator x dtype palette of extremes is executed: floating result dtype, rows equal to the exact rows rounded to it, same output row for the same input row in different batches; '
            'ToPower/square/centring/standardising/serialize_bit/fft_modulus and six time-frequency combinations.',
            'Time-frequency combinations other than Xcorr only at lengths 1, 2, 4; one known finding (Xcorr odd lengths) recorded, not repaired.', '6/C18'),
    'C19': ('TLA+ declarative post-condition ValidPeaks and code-shaped elimination scans (Signal.tla, SigPeaks.tla: repaired scan verified on every signal of the bound, pinned scan refuted); outputs of the real '
            'find_peaks judged by TLC (SigPeaksV.tla); windowed moments, pattern scores and width runs enumerated by TLC (SigEnum.tla) and compared with the real helpers',
            'TLC checks the repaired scan against ValidPeaks and isolated-maximum retention on every signal of length <= 7 over 3 values and <= 9 over 2 values x distances x heights; every output of the real find_peaks on '
            'those signals and on random longer ones is accepted or rejected by TLC itself; moving sum/mean/var/std/skew/kurtosis on every window of every small signal (1-D and along every axis of 3-D arrays), '
            'per-window Pearson / distance / BCDC for every pattern, find_width for all directions/thresholds/bounds, pad and extract_around_indexes index maps from SigIndex.tla (indexes in every integer dtype).',
            'sqrt and powers evaluated in Python on exact rationals; zero-variance windows not compared; Butterworth and fft outside the property.', '6/C19'),
    'C20': ('TLA+ model of the Synchronizer.run loop with a nondeterministic accept/raise/None user function (Synchronizer.tla) model-checked by TLC over every script in the bound; every script executed on a real Synchronizer',
            'TLC checks for every script of length <= 8(9) that the output is the accepted subsequence in input order, counters match (incl. all rejected), a second run changes nothing; a wrong write index is refuted. '
            'Every script <= 6(8) and long scripts with failure runs around the 8/16/32 warning limits are executed with ETS output (str / Path), equal or different returned lengths: output rows, all metadata, counters, single-use guard.',
            'Returned data of one run has one length (rectangular output); warning counts are compared as model drift only.', '6/C20'),
}

NOT_APPLICABLE = {}

ALL = ['C%02d' % i for i in range(1, 21)]


def build():
    checks = []
    for pid in ALL:
        if pid not in CLAIMED:
            continue
        tech, text, note, ref = CLAIMED[pid]
        checks.append({
            'property_id': pid,
            'quick_cmd': f'./check {pid} --tier quick',
            'thorough_cmd': f'./check {pid} --tier thorough',
            'evidence_file': f'/verif/evidence/{pid}.json',
            'replay_cmd_template': f'./check {pid} --replay {{path}}',
            'engine': 'tlc+replay',
            'level_claimed': {'category': 'model_checking', 'text': text, 'design_ref': 'DESIGN.md section ' + ref},
            'level_note': note,
            'technique': tech,
        })
    na = []
    for pid in ALL:
        if pid in CLAIMED:
            continue
        reason = NOT_APPLICABLE.get(pid, 'check not built yet in this round (planned with the same TLA+ technique, see DESIGN.md section 6); not claimed')
        na.append({'property_id': pid, 'reason': reason})
    m = {
        'version': 1,
        'setup_cmd': './setup.sh',
        'hooks': {
            'guard': 'SCARED_VERIF',
            'enable': 'environment variable SCARED_VERIF=1, exported by ./check itself before scared is imported from /repo (PYTHONPATH); nothing to build',
            'baseline_off_cmd': '/verif/harness/baseline.py',
            'source_commits': HOOK_COMMITS,
            'add_only': True,
        },
        'engines': [
            {'name': 'tlc+replay', 'path': '/verif/check', 'serves_properties': sorted(CLAIMED),
             'kind_free_text': 'TLA+ specifications in /verif/specs checked with TLC 1.8; TLC-generated behaviours replayed on the real code '
                               '(spec->code) and executions recorded from the real code validated by TLC (code->spec); harness in /verif/harness'},
        ],
        'checks': checks,
        'not_applicable': na,
        'notes': 'Exit 0 = held on everything explored; exit 1 + VIOLATION line = violation with replay file; exit 2 = machinery failure. '
                 'Known findings and fixed defects: /verif/known_findings.txt. Seeded changes: /verif/seeded/.',
    }
    return m


HOOK_COMMITS = ['88a9c81']

if __name__ == '__main__':
    m = build()
    with open(os.path.join(VERIF, 'MANIFEST.json'), 'w') as f:
        json.dump(m, f, indent=1)
        f.write('\n')
    print('MANIFEST.json written:', len(m['checks']), 'checks,', len(m['not_applicable']), 'not claimed')
