"""Adapters between the abstract distinguisher state of specs/DistOps.tla and the real scared objects.

Only: object construction, feeding, the projection (implementation state -> record of flat integer vectors),
and numeric evaluation of spec-provided certificates. No expected value is computed here.
"""
import math
from fractions import Fraction

import numpy as np

_LUT_MEMO = {}
_REAL_LUT = None


def memoise_lut():
    """Every partitioned object JIT-compiles a value->index closure at first update (0.5 s). Bulk replays memoise it
    per distinct class list (the real builder still runs once per class list). Listed in the evidence trusted base."""
    global _REAL_LUT
    from scared.distinguishers import partitioned
    if _REAL_LUT is not None:
        return
    _REAL_LUT = partitioned._define_lut_func

    def memo(partitions):
        key = (np.asarray(partitions).dtype.str, np.asarray(partitions).tobytes())
        if key not in _LUT_MEMO:
            _LUT_MEMO[key] = _REAL_LUT(partitions)
        return _LUT_MEMO[key]
    partitioned._define_lut_func = memo


# presentation of the spec's integers to the code: (dtype, scale); traces = m * scale
PRESENTATIONS = {
    'u8': ('uint8', 1), 'i16': ('int16', 1), 'i32': ('int32', 1), 'f32q': ('float32', 0.25), 'f64q': ('float64', 0.25),
    'f32': ('float32', 1), 'f64': ('float64', 1), 'i8': ('int8', 1), 'u16': ('uint16', 1),
}

# degree in the traces of every accumulator vector (for rescaling a scaled presentation back to integers)
DEGREE = {
    'cpa': {'sx': 1, 'sxx': 2, 'sy': 0, 'syy': 0, 'sxy': 1},
    'dpa': {'st': 1, 's1': 1, 'n1': 0},
    'part': {'sum': 1, 'sq': 2, 'cnt': 0},
    'mia': {'hist': 0},
    'tplb': {'exi': 1, 'exxi': 2, 'cnt': 0},
    'tplm': {'sc': 0}, 'tpld': {'sc': 0},
    'ttest': {'sum': 1, 'sq': 2},
}


def zero_sizes(c):
    S, W, C, B = c['S'], c['W'], len(c['classes']), c['nb']
    k = c['kind']
    return {
        'cpa': {'sx': S, 'sxx': S, 'sy': W, 'syy': W, 'sxy': W * S},
        'dpa': {'st': S, 's1': W * S, 'n1': W},
        'part': {'sum': S * W * C, 'sq': S * W * C, 'cnt': W * C},
        'mia': {'hist': S * B * C * W},
        'tplb': {'exi': C * S, 'exxi': C * S * S, 'cnt': C},
        'tplm': {'sc': C}, 'tpld': {'sc': W},
        'ttest': {'sum': S, 'sq': S},
    }[k]


class Adapter:
    """One real object driven along a spec history."""

    def __init__(self, c, precision, pres='i16', sub=None, partitions_auto=False):
        import scared
        from scared.distinguishers import template as tpl
        self.c, self.kind, self.precision = c, c['kind'], precision
        self.dtype, self.scale = PRESENTATIONS[pres]
        self.input_modified = None
        self.side_violation = None
        self.sub = sub or {'part': 'anova'}.get(self.kind)
        k = self.kind
        classes = None if partitions_auto else np.array(c['classes'], dtype='int32')
        if k == 'cpa':
            cls = scared.CPAAlternativeDistinguisher if sub == 'alt' else scared.CPADistinguisher
            self.o = cls(precision=precision)
        elif k == 'dpa':
            self.o = scared.DPADistinguisher(precision=precision)
        elif k == 'part':
            cls = {'anova': scared.ANOVADistinguisher, 'nicv': scared.NICVDistinguisher, 'snr': scared.SNRDistinguisher}[self.sub]
            self.o = cls(partitions=classes, precision=precision)
        elif k == 'mia':
            edges = (np.arange(c['nb'] + 1) * c['width'] + c['lo']).astype('float64') * self.scale
            self.o = scared.MIADistinguisher(bin_edges=edges, partitions=classes, precision=precision)
        elif k == 'tplb':
            class TB(scared.distinguishers.partitioned.PartitionedDistinguisherBase, tpl._TemplateBuildDistinguisherMixin):
                pass
            self.o = TB(partitions=classes, precision=precision)
        elif k in ('tplm', 'tpld'):
            base = tpl.TemplateAttackDistinguisherMixin if k == 'tplm' else tpl.TemplateDPADistinguisherMixin

            class TM(base):
                pass
            self.o = TM(partitions=classes, precision=precision)
            self.o.is_build = True
            self.o.templates = np.array(c['tpl'], dtype='float64') * self.scale
            self.o.pooled_covariance_inv = np.array(c['ainv'], dtype='float64') / (self.scale ** 2)
            self.o.pooled_covariance = np.zeros((c['S'], c['S']))
        elif k == 'ttest':
            from scared.ttest import TTestThreadAccumulator
            self.o = TTestThreadAccumulator(precision=np.dtype(precision))
        else:
            raise ValueError(k)

    # ---- feeding ------------------------------------------------------------------------------------
    def arrays(self, rows):
        t = (np.array([r['t'] for r in rows], dtype='float64').reshape(len(rows), self.c['S']) * self.scale).astype(self.dtype)
        ddt = 'uint8' if self.kind == 'dpa' else 'int32' if (rows and min(min(r['d']) for r in rows) < 0) else 'uint16'
        if self.kind == 'cpa' and ddt == 'uint16' and rows and max(max(r['d']) for r in rows) <= 255 and len(rows) % 2 == 1:
            ddt = 'uint8'              # byte-valued intermediate data in their natural type (every other batch size)
        d = np.array([r['d'] for r in rows], dtype=ddt).reshape(len(rows), self.c['W'])
        return t, d

    def update(self, rows):
        t, d = self.arrays(rows)
        self.nupdates = getattr(self, 'nupdates', 0) + 1
        if self.kind in ('cpa', 'dpa') and self.nupdates % 2 == 0:
            # the same values in Fortran order (what a transposed view gives): an update is a function of the values.  Only for the
            # numpy-only distinguishers - each new layout costs the compiled kernels of the others a fresh specialisation
            t, d = np.asfortranarray(t), np.asfortranarray(d)
        t0, d0 = t.copy(), d.copy()
        if self.kind in ('cpa', 'dpa') and self.nupdates % 3 == 0 and t.ndim == 2:
            # the batch first offered as numpy.matrix (an ndarray subclass with its own reduction shapes): either it is taken like the plain array,
            # or it is refused - and then nothing of it may stay behind (C16); the plain array follows in that case
            before = self.snapshot()
            try:
                self.o.update(np.asmatrix(t), d)
                return
            except Exception:       # noqa
                if self.snapshot() != before:
                    self.side_violation = 'a batch refused as numpy.matrix leaves the object state bit-identical'
        try:
            if self.kind == 'ttest':
                self.o.update(t)
            else:
                self.o.update(t, d)
        finally:
            # the batch belongs to the caller (who may feed it to another object next): it must come back as it was given
            if not (np.array_equal(t, t0) and np.array_equal(d, d0)):
                self.input_modified = 'traces' if not np.array_equal(t, t0) else 'data'

    def compute(self):
        if self.kind == 'ttest':
            self.o.compute()
            return {'mean': np.array(self.o.mean, dtype='float64'), 'var': np.array(self.o.var, dtype='float64')}
        if self.kind == 'tplb':
            # the whole profile is the result of a build: class means AND the pooled covariance with its pseudo-inverse
            t_ = np.array(self.o.compute())
            return {'templates': t_, 'pooled_covariance': np.array(self.o.pooled_covariance), 'pooled_covariance_inv': np.array(self.o.pooled_covariance_inv)}
        return np.array(self.o.compute())

    # ---- projection ---------------------------------------------------------------------------------
    def inited(self):
        return hasattr(self.o, 'sum') if self.kind == 'ttest' else hasattr(self.o, '_origin_shape')

    def n(self):
        return int(self.o.processed_traces)

    def raw(self):
        """name -> float64 flat array (or None before initialisation)."""
        o, k = self.o, self.kind
        names = {
            'cpa': {'sx': 'ex', 'sxx': 'ex2', 'sy': 'ey', 'syy': 'ey2', 'sxy': 'exy'},
            'dpa': {'st': 'accumulator_traces', 's1': 'accumulator_ones', 'n1': 'processed_ones'},
            'part': {'sum': 'sum', 'sq': 'sum_square', 'cnt': 'counters'},
            'mia': {'hist': 'accumulators'},
            'tplb': {'exi': '_exi', 'exxi': '_exxi', 'cnt': '_counters'},
            'tplm': {'sc': '_scores'}, 'tpld': {'sc': '_scores'},
            'ttest': {'sum': 'sum', 'sq': 'sum_squared'},
        }[k]
        out = {}
        for key, attr in names.items():
            if hasattr(o, attr):
                out[key] = np.array(getattr(o, attr), dtype='float64').ravel()
            else:
                out[key] = None
        return out

    def projection(self):
        """Record of flat integer vectors, exactly as the spec's acc; raises ValueError if some value is not an
        exactly representable integer after rescaling (that is a disagreement, reported by the caller)."""
        sizes = zero_sizes(self.c)
        raw = self.raw()
        out = {}
        live = self.inited()
        for key, size in sizes.items():
            v = raw[key]
            if v is None or not live:
                out[key] = [0] * size
                continue
            deg = DEGREE[self.kind][key]
            w = v / (self.scale ** deg)
            if self.kind in ('tplm', 'tpld'):
                w = w * self.c['S']
            r = np.rint(w)
            if w.shape[0] != size:
                raise ValueError(f'{key}: size {w.shape[0]} != {size}')
            if not np.all(np.isfinite(w)) or np.any(r != w):
                raise ValueError(f'{key}: non-integer accumulator values {w.tolist()}')
            out[key] = [int(x) for x in r]
        return out

    def snapshot(self):
        """Bit-level snapshot of every accumulator (values, shape, dtype) + count, for purity comparisons."""
        raw = {}
        profile = {}
        if self.kind in ('tplm', 'tpld'):
            # the profile a matching distinguisher was given (templates, covariance, its inverse) is configuration, not accumulated state: it stays what it was
            for attr in ('templates', 'pooled_covariance', 'pooled_covariance_inv'):
                val = getattr(self.o, attr, None)
                if isinstance(val, np.ndarray):
                    profile['profile:' + attr] = (val.shape, val.dtype.str, np.ascontiguousarray(val).tobytes())
        if self.kind != 'ttest' and not hasattr(self.o, '_origin_shape'):
            # arrays left behind by a refused first call are dead state (re-created by the next valid call)
            return dict(profile, processed_traces=int(self.o.processed_traces), _has_origin=False)
        raw.update(profile)
        for attr, val in sorted(vars(self.o).items()):
            if attr in ('_timings', '_origin_shape', 'mean', 'var', '_is_checked') or attr.startswith('_tstate') or attr in ('pooled_covariance', 'pooled_covariance_inv'):
                continue
            if isinstance(val, np.ndarray):
                raw[attr] = (val.shape, val.dtype.str, np.ascontiguousarray(val).tobytes())
            elif isinstance(val, (int, float, bool, np.generic)):
                raw[attr] = val
        raw['_has_origin'] = hasattr(self.o, '_origin_shape')
        if hasattr(self.o, '_origin_shape'):
            raw['_origin_tail'] = tuple(self.o._origin_shape[1:])
        return raw

    def exact_regime_ok(self, acc):
        lim = 2 ** 24 if np.dtype(self.precision) == np.float32 else 2 ** 53
        for key, v in acc.items():
            deg = DEGREE[self.kind][key]
            # scaled presentation shifts the binary point only; the mantissa bound is on the integers
            if any(abs(x) >= lim for x in v):
                return False
        return True


# ---- evaluation of spec certificates (arithmetic only) -------------------------------------------
def eval_pearson(cert):
    num, dx, dy = cert
    if dx == 0 or dy == 0:
        return float('nan')
    return num / math.sqrt(dx * dy)


def eval_dpa(cert, scale=1):
    a1, n1, a0, n0 = cert
    if n1 == 0 or n0 == 0:
        return float('nan')
    return float((Fraction(a1, n1) - Fraction(a0, n0)) * Fraction(scale))


def eval_rat(r):
    p, q = r
    if q == 0:
        return float('nan') if p == 0 else math.copysign(float('inf'), p)
    return float(Fraction(p, q))


def close(a, b, rtol, atol):
    a, b = np.asarray(a, dtype='float64'), np.asarray(b, dtype='float64')
    if a.shape != b.shape:
        return False
    na, nb = np.isnan(a), np.isnan(b)
    if np.any(na != nb):
        return False
    m = ~na
    if np.any(np.isinf(a[m]) | np.isinf(b[m])):
        return bool(np.all(a[m] == b[m]))
    return bool(np.all(np.abs(a[m] - b[m]) <= atol + rtol * np.abs(b[m])))
