"""Common plumbing for the checks: repo import path, verdict collection, replay files, known findings, evidence."""
import hashlib
import json
import os
import sys
import time
import warnings

VERIF = os.path.dirname(os.path.dirname(os.path.abspath(__file__)))
REPO = (os.environ.get('VERIF_REPO') or '/repo')
GUARD = 'SCARED_VERIF'
LEVELS = ('exploration', 'fault_enumeration', 'model_checking', 'proof', 'translation_validation', 'other')


def setup_repo_import():
    """Checks always import the current working tree of the repository (never an installed copy)."""
    os.environ[GUARD] = '1'
    warnings.filterwarnings('ignore')
    os.environ.setdefault('NUMBA_CACHE_DIR', os.path.join(os.environ.get('TMPDIR', '/tmp'), 'verif_numba_cache'))
    if REPO not in sys.path:
        sys.path.insert(0, REPO)
    for name in list(sys.modules):
        if name == 'scared' or name.startswith('scared.'):
            f = getattr(sys.modules[name], '__file__', '') or ''
            if not f.startswith(REPO):
                raise RuntimeError(f'scared imported from {f}, expected {REPO}')


class MachineryError(Exception):
    """Exit 2: the check itself is broken (never a verdict about the repository)."""


def load_known_findings():
    """known_findings.txt lines:  finding: property=<id> sig=<signature> <free text>   |   fixed: property=<id> <commit> <text>"""
    out = {}
    path = os.path.join(VERIF, 'known_findings.txt')
    if not os.path.exists(path):
        return out
    for line in open(path):
        line = line.strip()
        if not line.startswith('finding:'):
            continue
        fields = dict(f.split('=', 1) for f in line.split()[1:3] if '=' in f)
        pid, sig = fields.get('property'), fields.get('sig')
        if pid and sig:
            out.setdefault(pid, {})[sig] = line.split(None, 3)[3] if len(line.split(None, 3)) > 3 else sig
    return out


class Check:
    """Collects what a check run explored and found; writes evidence; prints verdict lines."""

    def __init__(self, pid, tier, seed):
        self.pid, self.tier, self.seed = pid, tier, seed
        self.t0 = time.time()
        self.states = 0
        self.transitions = 0
        self.traces_validated = 0
        self.evaluations = 0
        self.nontrivial = set()
        self.nontrivial_count = 0
        self.samples = []
        self.violations = []      # (signature, replay path, text)
        self.known_hits = {}      # signature -> count
        self.drift = 0
        self.assumptions = []
        self.rule = ''
        self.extra = {}
        self.tlc_runs = []
        self.known = load_known_findings().get(pid, {})
        self._seen_sigs = set()

    # ---- bookkeeping -------------------------------------------------------------------------------
    def add_tlc(self, name, res):
        self.states += res.distinct
        self.transitions += res.generated
        self.tlc_runs.append({'run': name, 'distinct': res.distinct, 'generated': res.generated, 'wall_s': round(res.wall_s, 2),
                              'coverage': {k: list(v) for k, v in sorted(res.coverage.items())} if res.coverage else None})

    def sample(self, obj, limit=6):
        if len(self.samples) < limit:
            self.samples.append(obj)

    def count(self, key=None, nontrivial=True):
        """One evaluated case; `key` (hashable/JSON-able) identifies it for distinct counting."""
        self.evaluations += 1
        if nontrivial:
            if key is None:
                self.nontrivial_count += 1
            else:
                h = hashlib.sha1(json.dumps(key, sort_keys=True, default=str).encode()).digest()[:10]
                self.nontrivial.add(h)

    # ---- verdicts ----------------------------------------------------------------------------------
    def violation(self, sig, replay, text):
        """A case where the real code disagrees with the specification. `sig` identifies *what* fails (stable,
        input-class level) so that known findings suppress exactly that and nothing else."""
        if sig in self.known:
            self.known_hits[sig] = self.known_hits.get(sig, 0) + 1
            return
        if sig in self._seen_sigs and len(self.violations) >= 5:
            self.violations.append((sig, None, text))
            return
        self._seen_sigs.add(sig)
        path = write_replay(self.pid, replay)
        self.violations.append((sig, path, text))

    def finish(self, level='model_checking', exhaustive=None):
        wall = time.time() - self.t0
        dn = len(self.nontrivial) + self.nontrivial_count
        cov = {
            'states': int(self.states), 'transitions': int(self.transitions),
            'traces_validated_against_impl': int(self.traces_validated),
            'evaluations': int(self.evaluations), 'distinct_nontrivial': int(dn),
            'rule': self.rule, 'samples': self.samples or [{'note': 'no sample recorded'}],
            'tlc_runs': self.tlc_runs, 'known_finding_hits': self.known_hits, 'drift': self.drift,
        }
        if exhaustive is not None:
            cov['exhaustive'] = bool(exhaustive)
        cov.update(self.extra)
        ev = {'property_id': self.pid, 'tier': self.tier, 'seed': int(self.seed), 'level': level, 'coverage': cov,
              'assumptions': self.assumptions, 'wall_s': round(wall, 2), 'violations': len(self.violations)}
        validate_evidence(ev)
        evdir = os.environ.get('VERIF_EVIDENCE_DIR') or os.path.join(VERIF, 'evidence')      # seeded-change runs (harness/seeded.py) keep their evidence apart
        os.makedirs(evdir, exist_ok=True)
        with open(os.path.join(evdir, f'{self.pid}.json'), 'w') as f:
            json.dump(ev, f, indent=1, default=_jsonable)
            f.write('\n')
        for sig, n in sorted(self.known_hits.items()):
            print(f'KNOWN-FINDING: property={self.pid} {sig}: {self.known[sig]} ({n} case(s) this run)')
        shown = 0
        for sig, path, text in self.violations:
            if path is None:
                continue
            print(f'VIOLATION property={self.pid} replay={path}')
            print(f'  [{sig}] {text}')
            shown += 1
        if self.violations:
            print(f'{self.pid}: {len(self.violations)} violating case(s), {shown} replay file(s); states={self.states} '
                  f'evaluations={self.evaluations} wall={wall:.1f}s')
            return 1
        print(f'{self.pid}: OK tier={self.tier} states={self.states} transitions={self.transitions} '
              f'replayed/validated={self.traces_validated} evaluations={self.evaluations} nontrivial={dn} wall={wall:.1f}s')
        return 0


def _jsonable(o):
    try:
        import numpy as np
        if isinstance(o, np.ndarray):
            return o.tolist()
        if isinstance(o, np.generic):
            return o.item()
    except ImportError:
        pass
    if isinstance(o, (set, frozenset, tuple)):
        return list(o)
    return str(o)


def write_replay(pid, obj):
    d = os.path.join(VERIF, 'replays', pid)
    os.makedirs(d, exist_ok=True)
    text = json.dumps(obj, sort_keys=True, indent=1, default=_jsonable)
    name = hashlib.sha1(text.encode()).hexdigest()[:12] + '.json'
    path = os.path.join(d, name)
    with open(path, 'w') as f:
        f.write(text + '\n')
    return path


def scribble(x, value=0xA5):
    """The caller owns what a public function returned: overwrite it, so that any later result that still depended on it (a cache handed out
    without a copy, a shared work buffer) shows up as a wrong value in the comparisons that follow."""
    try:
        import numpy as np
        if isinstance(x, np.ndarray) and x.flags.writeable and x.size:
            x[...] = value if x.dtype.kind in 'iu' else 1
    except Exception:       # noqa - read-only / exotic containers are left alone
        pass


def validate_evidence(ev):
    """Built-in validation against the published EVIDENCE schema (jsonschema is not in /venv)."""
    for k in ('property_id', 'tier', 'seed', 'level', 'coverage', 'wall_s'):
        if k not in ev:
            raise MachineryError(f'evidence lacks {k}')
    if ev['tier'] not in ('quick', 'thorough') or ev['level'] not in LEVELS or not isinstance(ev['seed'], int):
        raise MachineryError('evidence header invalid')
    c = ev['coverage']
    if ev['level'] == 'model_checking':
        if not (c.get('states', 0) >= 1 and c.get('transitions', 0) >= 1 and isinstance(c.get('samples'), list) and len(c['samples']) >= 1
                and c.get('traces_validated_against_impl', -1) >= 0):
            raise MachineryError(f'model_checking evidence invalid: states={c.get("states")} transitions={c.get("transitions")}')
    try:
        import jsonschema  # optional (python3-vt); /venv does not have it
        schema = json.load(open('/root/.vp/EVIDENCE.schema.json'))
        jsonschema.validate(json.loads(json.dumps(ev, default=_jsonable)), schema)
    except ImportError:
        pass
    except FileNotFoundError:
        pass
