#!/venv/bin/python
"""Seeded changes: validation and detection.

  seeded.py validate <dir>     in a scratch worktree of /repo (outside /repo and /verif, removed afterwards): the demonstration passes
                               on the clean tree, fails with patch.diff applied, and the stable baseline still passes with the patch
  seeded.py detect <dir> [Cxx ...]   apply patch.diff to /repo, run the quick checks (default: the property in meta.json), undo
"""
import json
import os
import shutil
import subprocess
import sys
import tempfile

VERIF = os.path.dirname(os.path.dirname(os.path.abspath(__file__)))


def sh(cmd, **kw):
    return subprocess.run(cmd, stdout=subprocess.PIPE, stderr=subprocess.STDOUT, text=True, **kw)


def validate(d):
    d = os.path.abspath(d)
    wt = tempfile.mkdtemp(prefix='verif_seedval_')
    os.rmdir(wt)
    out = {}
    try:
        r = sh(['git', '-C', '/repo', 'worktree', 'add', '-q', '--detach', wt, 'HEAD'])
        assert r.returncode == 0, r.stdout
        env = dict(os.environ, PYTHONPATH=wt)
        env.pop('SCARED_VERIF', None)
        demo = os.path.join(d, 'demo.py')
        r0 = sh(['/venv/bin/python', demo], env=env, cwd=wt, timeout=900)
        out['demo_clean_exit'] = r0.returncode
        ra = sh(['git', '-C', wt, 'apply', os.path.join(d, 'patch.diff')])
        out['patch_applies'] = ra.returncode == 0
        if ra.returncode != 0:
            out['apply_error'] = ra.stdout[-400:]
            return out
        r1 = sh(['/venv/bin/python', demo], env=env, cwd=wt, timeout=900)
        out['demo_mutant_exit'] = r1.returncode
        out['demo_mutant_tail'] = r1.stdout[-300:]
        rb = sh([os.path.join(VERIF, 'harness', 'baseline.py')], env=dict(env, VERIF_REPO=wt), timeout=3000)
        out['baseline_ok'] = rb.returncode == 0
        out['baseline_tail'] = rb.stdout[-300:]
        out['valid'] = out['demo_clean_exit'] == 0 and out['demo_mutant_exit'] != 0 and out['baseline_ok']
    finally:
        sh(['git', '-C', '/repo', 'worktree', 'remove', '--force', wt])
        shutil.rmtree(wt, ignore_errors=True)
    return out


def detect(d, pids=None):
    d = os.path.abspath(d)
    meta = json.load(open(os.path.join(d, 'meta.json'))) if os.path.exists(os.path.join(d, 'meta.json')) else {}
    pids = pids or [meta.get('property')]
    st = sh(['git', '-C', '/repo', 'status', '--porcelain', '--untracked-files=no'])
    assert st.stdout.strip() == '', 'uncommitted changes in /repo: ' + st.stdout
    res = {}
    ra = sh(['git', '-C', '/repo', 'apply', os.path.join(d, 'patch.diff')])
    assert ra.returncode == 0, ra.stdout
    try:
        for pid in pids:
            r = sh([os.path.join(VERIF, 'check'), pid, '--tier', 'quick'], cwd=VERIF, timeout=3600, env=dict(os.environ, VERIF_EVIDENCE_DIR=tempfile.mkdtemp(prefix='verif_seed_ev_')))
            lines = [l for l in r.stdout.splitlines() if l.startswith('VIOLATION') or l.startswith('  [')]
            res[pid] = {'exit': r.returncode, 'first': lines[:2], 'tail': r.stdout.splitlines()[-1:] }
    finally:
        sh(['git', '-C', '/repo', 'checkout', '--', '.'])
    return res


def table(root):
    """markdown table of every seeded change, from the meta.json / notes.md files (DESIGN.md 'Seeded changes')"""
    rows = ['| change | what it does (author\'s words) | caught by (first violated clause of the property\'s quick check) | status |', '|---|---|---|---|']
    n = built = 0
    for d in sorted(os.listdir(root)):
        mp = os.path.join(root, d, 'meta.json')
        if not os.path.exists(mp):
            continue
        m = json.load(open(mp))
        notes = open(os.path.join(root, d, 'notes.md')).read().strip().splitlines()
        what = next((l.lstrip('# ').strip() for l in notes if l.strip()), '')[:170].replace('|', '/')
        fv = str(m['detection'].get('first_violation', ''))[:150].replace('|', '/')
        n += 1
        if m.get('initially_missed'):
            status = 'missed at first: ' + str(m.get('strengthening', ''))[:330].replace('|', '/')
        else:
            status = 'caught as built'
            built += 1
        rows.append(f'| {d} | {what} | {fv} | {status} |')
    return n, built, '\n'.join(rows)


if __name__ == '__main__':
    cmd, d = sys.argv[1], sys.argv[2]
    if cmd == 'table':
        n, built, t = table(d)
        print(f'<!-- {n} changes, {built} caught as built -->')
        print(t)
        sys.exit(0)
    if cmd == 'validate':
        print(json.dumps(validate(d), indent=1))
    else:
        print(json.dumps(detect(d, sys.argv[3:] or None), indent=1))
