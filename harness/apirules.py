"""Replay of specs/ApiRules.tla: argument-validation outcomes of public entry points (specification growth beyond the listed
properties; each mode is run by the check of the property whose code it touches; a disagreement is reported as a violation of
that check under the clause 'argument validation')."""
import numpy as np

from . import tlc


def concrete(x):
    k, v = x['kind'], x['v']
    return {'int': v, 'float': v + 0.5 if v >= 0 else v - 0.5, 'str': str(v), 'none': None}[k]


def call(api, a, b):
    import scared
    A, B = concrete(a), concrete(b)
    if api == 'batch_size':
        old = scared.Container._BATCH_SIZE
        try:
            scared.set_batch_size(A)
        finally:
            scared.Container._BATCH_SIZE = old
    elif api == 'convergence_step':
        scared.CPAAttack(selection_function=scared.aes.selection_functions.encrypt.FirstSubBytes(), model=scared.HammingWeight(), discriminant=scared.maxabs, convergence_step=A)
    elif api == 'monobit':
        scared.Monobit(A)
    elif api == 'hamming_weight':
        m = scared.HammingWeight(nb_words=A)
        if b['kind'] == 'int' and b['v'] >= 1:
            try:
                m(np.zeros((2, b['v']), dtype='uint8'))
            except ValueError:
                return 'ValueError@call'
    elif api == 'aes_stop':
        kw = {} if A is None else {'at_round': A}
        scared.aes.encrypt(np.zeros(16, dtype='uint8'), np.zeros(16, dtype='uint8'), after_step=B, **kw)
    elif api == 'des_stop':
        kw = {} if A is None else {'at_round': A}
        scared.des.encrypt(np.zeros(8, dtype='uint8'), np.zeros(8, dtype='uint8'), after_step=B, **kw)
    elif api == 'find_peaks':
        scared.signal_processing.find_peaks(np.array([0, 2, 1, 3, 0]), A, B)
    elif api == 'moving':
        scared.signal_processing.moving_sum(np.arange(8), A)
    return 'ok'


def run(chk, api, prop):
    r = tlc.run('ApiRules', cfg_text=tlc.cfg(constants={'Api': api}, invariants=['Total', 'Emit']), workers=1, timeout=600)
    chk.add_tlc(f'MC+GEN:argument validation table ({api})', r)
    if r.violated:
        raise tlc.TLCError(f'ApiRules({api}) violates {r.violated}')
    seen = set()
    for e in r.emits():
        key = (e['a']['kind'], e['a']['v'], e['b']['kind'], e['b']['v'])
        if api in ('batch_size', 'convergence_step', 'monobit', 'moving'):
            key = key[:2]
        if key in seen:
            continue
        seen.add(key)
        try:
            got = call(api, e['a'], e['b'])
        except TypeError:
            got = 'TypeError'
        except ValueError:
            got = 'ValueError'
        except Exception as ex:      # noqa
            got = type(ex).__name__
        want = e['out']
        chk.count(('api', api) + key, nontrivial=True)
        ok = got == want or (want == 'Error' and got != 'ok')
        if not ok:
            chk.violation(f'argument validation:{api}', {'property': prop, 'part': 'api', 'api': api, 'a': e['a'], 'b': e['b'], 'got': got, 'specification': want},
                          f'{api}({concrete(e["a"])!r}, {concrete(e["b"])!r}): {got}, specification {want}')
