----------------------------- MODULE PipelineDES -----------------------------
(* C17 (DES): simulated leakage for an attack on words Ws of a ready-made selection function.                          *)
(* Input: fn, the inputs the function takes (plaintexts or ciphertexts of the true cipher), the true key words kw (what    *)
(* the expected-key function returns), the attacked words, the guesses offered, the leakage model.                      *)
(* The specification computes the intermediate under the true key with its own Hyp (tied to the real cipher by the       *)
(* theorem of C07), the noise-free leakage Model(intermediate), bounded noise in {-1, 0, 1} from a fixed hash, and the    *)
(* trace matrix: word j of Ws leaks at sample j as 4 * leakage + noise; the other samples are noise, the last one is a     *)
(* CONSTANT sample (saturated / padding point: every statistic is undefined there and must be ignored by the ranking).    *)
(* (M) identifiability: no offered wrong guess induces the same (or, for sign-free statistics, the complementary)         *)
(*     leakage column as the true key on this input set - otherwise "ranks first" would be undecidable by symmetry.        *)
EXTENDS SelDES, Json, IOUtils
Cases == JsonDeserialize(IOEnv.CASES)  \* sequence of [fn, inputs, kw (8 words of 6 bits), words (1-based), guesses, model, nsamples, seed]
VARIABLES ci, j, pres                  \* configuration; index into its attacked words; per-input precomputation (evaluated once, in the initial state)
C == Cases[ci]
\* (the attacked word is chosen by a transition so that TLC's workers share the evaluations)
Init == /\ ci \in 1..Len(Cases) /\ j = 0
        /\ pres = [i \in 1..Len(Cases[ci].inputs) |-> Pre(Cases[ci].inputs[i])]
Next == j = 0 /\ j' \in 1..Len(Cases[ci].words) /\ UNCHANGED <<ci, pres>>
Spec == Init /\ [][Next]_<<ci, j, pres>>
RECURSIVE Pop(_)
Pop(x) == IF x = 0 THEN 0 ELSE (x % 2) + Pop(x \div 2)
Model(v) == CASE C.model = "hw" -> Pop(v) [] C.model = "bit0" -> v % 2 [] OTHER -> v
W == C.words[j]
N == Len(C.inputs)
Col(g) == [i \in 1..N |-> Model(HypPre(C.fn, pres[i], g, W))]
TrueCol == Col(C.kw[W])
MaxLeak == CASE C.model = "hw" -> (IF Kind(C.fn) = "ark" THEN 6 ELSE 4) [] C.model = "bit0" -> 1 [] OTHER -> 63
Identifiable == \A gi \in 1..Len(C.guesses) : C.guesses[gi] # C.kw[W] =>
                   /\ Col(C.guesses[gi]) # TrueCol
                   /\ (C.symmetric => \E i \in 1..N : Col(C.guesses[gi])[i] + TrueCol[i] # MaxLeak)        \* not the complementary column
Noise(i, s) == ((((((i * 7919) + (s * 104729) + C.seed) % 65537) * 75) % 65537) % 3) - 1
Emit == j > 0 => PrintT(<<"EMIT", ToJson([ci |-> ci, j |-> j, identifiable |-> Identifiable, leak |-> TrueCol, noise |-> [i \in 1..N |-> [s \in 1..C.nsamples |-> IF s = C.nsamples THEN 7 ELSE Noise(i, s)]]])>>)
=============================================================================
