SPECIFICATION Spec
INVARIANT Accept
INVARIANT Progress
CHECK_DEADLOCK FALSE
