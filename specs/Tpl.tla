-------------------------------- MODULE Tpl --------------------------------
(* C14: templates are class means, the pooled covariance is the average over the declared classes of the    *)
(* unbiased within-class covariance matrices, matching is 10 - mean squared Mahalanobis distance under the   *)
(* pseudo-inverse of the pooled covariance.  Everything in exact rationals; trace length S in {1, 2}.        *)
(* A building / matching row is [t |-> <<x_1..x_S>>, d |-> <<v_1..v_W>>]; the class of a building row is d[1]. *)
EXTENDS Num

RZero == <<0, 1>>
ClassRows(rows, cv) == SelectSeq(rows, LAMBDA r : r.d[1] = cv)
SumA(rs, a) == SumTo(LAMBDA i : rs[i].t[a], Len(rs))
SumAB(rs, a, b) == SumTo(LAMBDA i : rs[i].t[a] * rs[i].t[b], Len(rs))

\* ---- P -------------------------------------------------------------------------------------------
MeanVec(rs, S) == [a \in 1..S |-> Rat(SumA(rs, a), Len(rs))]                      \* needs Len(rs) >= 1
\* unbiased covariance: sum (x-m)(y-m) / (n-1) = (n sum xy - sum x sum y) / (n (n-1));   needs n >= 2
CovU(rs, S) == LET n == Len(rs) IN [a \in 1..S |-> [b \in 1..S |-> IF n < 2 THEN RZero ELSE Rat(n * SumAB(rs, a, b) - SumA(rs, a) * SumA(rs, b), n * (n - 1))]]
\* (a declared class with fewer than two building traces has no covariance estimate: it contributes the zero matrix, and the average
\* is still taken over ALL declared classes - the reading of "average over declared classes" the library documents by its warning)
Templates(rows, classes, S) == [k \in 1..Len(classes) |-> LET rs == ClassRows(rows, classes[k]) IN
                                  IF Len(rs) = 0 THEN [a \in 1..S |-> RZero] ELSE MeanVec(rs, S)]
Pooled(rows, classes, S) == [a \in 1..S |-> [b \in 1..S |->
     RDiv(RSumTo(LAMBDA k : CovU(ClassRows(rows, classes[k]), S)[a][b], Len(classes)), RInt(Len(classes)))]]
AllClassesHaveTwo(rows, classes) == \A k \in 1..Len(classes) : Len(ClassRows(rows, classes[k])) >= 2

\* Moore-Penrose pseudo-inverse of a symmetric positive semi-definite 1x1 / 2x2 rational matrix
PInv(P, S) ==
  IF S = 1 THEN <<<<IF P[1][1][1] = 0 THEN RZero ELSE RInv(P[1][1])>>>>
  ELSE LET det == RSub(RMul(P[1][1], P[2][2]), RMul(P[1][2], P[2][1]))
           tr == RAdd(P[1][1], P[2][2]) IN
       IF det[1] # 0 THEN <<<<RDiv(P[2][2], det), RNeg(RDiv(P[1][2], det))>>, <<RNeg(RDiv(P[2][1], det)), RDiv(P[1][1], det)>>>>
       ELSE IF tr[1] = 0 THEN <<<<RZero, RZero>>, <<RZero, RZero>>>>
       ELSE [a \in 1..2 |-> [b \in 1..2 |-> RDiv(P[a][b], RSq(tr))]]              \* rank one: M / tr(M)^2
MatMul(A, B, S) == [a \in 1..S |-> [b \in 1..S |-> RSumTo(LAMBDA k : RMul(A[a][k], B[k][b]), S)]]
IsPInv(A, P, S) == /\ MatMul(MatMul(A, P, S), A, S) = A /\ MatMul(MatMul(P, A, S), P, S) = P
                   /\ \A a, b \in 1..S : A[a][b] = A[b][a]
\* positive semi-definite (S <= 2): non-negative diagonal and determinant
PSD(P, S) == /\ \A a \in 1..S : P[a][a][1] >= 0
             /\ (S = 2 => RSub(RMul(P[1][1], P[2][2]), RMul(P[1][2], P[2][1]))[1] >= 0)

\* squared Mahalanobis form (t - mu)' A (t - mu), t integer vector, mu rational vector
Maha(t, mu, A, S) == RSumTo(LAMBDA a : RSumTo(LAMBDA b : RMul(RMul(RSub(RInt(t[a]), mu[a]), A[a][b]), RSub(RInt(t[b]), mu[b])), S), S)
\* static template attack: one score per class
ScoreStatic(mrows, tpls, A, S, k) == RSub(RInt(10), RDiv(RSumTo(LAMBDA i : Maha(mrows[i].t, tpls[k], A, S), Len(mrows)), RInt(Len(mrows) * S)))
\* template DPA: per hypothesis column g, the template is the one of the class whose VALUE is the hypothesis
IndexOfValue(classes, v) == CHOOSE k \in 1..Len(classes) : classes[k] = v
ScoreDpa(mrows, tpls, A, S, classes, g) ==
    RSub(RInt(10), RDiv(RSumTo(LAMBDA i : Maha(mrows[i].t, tpls[IndexOfValue(classes, mrows[i].d[g])], A, S), Len(mrows)), RInt(Len(mrows) * S)))

\* ---- K: _TemplateBuildDistinguisherMixin._compute from the accumulators (count, sum) ----------------
\* pinned upstream: counts <= 1 are replaced by 2 BEFORE the mean is taken; repaired: the mean uses the real count
TemplateK(rows, classes, S, variant) == [k \in 1..Len(classes) |-> LET rs == ClassRows(rows, classes[k])  n == Len(rs)
        div == IF variant = "pinned" THEN (IF n <= 1 THEN 2 ELSE n) ELSE (IF n = 0 THEN 1 ELSE n)
    IN [a \in 1..S |-> Rat(SumA(rs, a), div)]]
PooledK(rows, classes, S) == [a \in 1..S |-> [b \in 1..S |->
     RDiv(RSumTo(LAMBDA k : LET rs == ClassRows(rows, classes[k])  n == Len(rs) IN
                            IF n = 0 THEN RZero ELSE
                            RDiv(RSub(RInt(SumAB(rs, a, b)), RMul(RMul(Rat(SumA(rs, a), n), Rat(SumA(rs, b), n)), RInt(n))), RInt((IF n < 2 THEN 2 ELSE n) - 1)),
                 Len(classes)), RInt(Len(classes)))]]
=============================================================================
