------------------------------ MODULE BatchRule ------------------------------
(* C02: the batch size a Container derives from the global setting.                                           *)
(* K: Container._compute_batch_size: int -> itself; table -> the interval lookup loop with its IndexError exit;   *)
(*    float (MB) -> bytes = int(MB * 2^20); traces = bytes / (trace length * itemsize) floored to its most        *)
(*    significant digit, at least 10.                                                                            *)
(* P: table -> the size of the entry with the largest threshold <= trace length; MB -> as documented; always >= 1. *)
EXTENDS Integers, Sequences, TLC, Json
CONSTANTS Table,        \* sequence of <<threshold, size>>, ascending, first threshold 0
          Lens, Bytes, ItemSizes, Gen
VARIABLES mode, len, bytes, item
vars == <<mode, len, bytes, item>>
Init == \/ mode = "table" /\ len \in Lens /\ bytes = 0 /\ item = 1
        \/ mode = "mb" /\ len \in Lens /\ bytes \in Bytes /\ item \in ItemSizes
Next == UNCHANGED vars
Spec == Init /\ [][Next]_vars

\* K: the loop  for i: try: if t[i][0] <= L < t[i+1][0]: return t[i][1]  except IndexError: return t[-1][1]
RECURSIVE LoopK(_, _)
LoopK(i, L) == IF i = Len(Table) THEN Table[Len(Table)][2]
               ELSE IF L >= Table[i][1] /\ L < Table[i + 1][1] THEN Table[i][2] ELSE LoopK(i + 1, L)
TableK(L) == LoopK(1, L)
TableP(L) == Table[CHOOSE i \in 1..Len(Table) : Table[i][1] <= L /\ \A j \in 1..Len(Table) : Table[j][1] <= L => Table[j][1] <= Table[i][1]][2]

RECURSIVE Pow10Below(_, _)
Pow10Below(x, p) == IF p * 10 <= x THEN Pow10Below(x, p * 10) ELSE p          \* largest power of ten <= x (x >= 1)
FloorMSD(x) == IF x < 1 THEN 0 ELSE LET m == Pow10Below(x, 1) IN (x \div m) * m
MbK(b, L, it) == LET q == b \div (L * it) IN IF FloorMSD(q) >= 10 THEN FloorMSD(q) ELSE 10

Expected == IF mode = "table" THEN TableP(len) ELSE MbK(bytes, len, item)
TableRuleIsLookup == mode = "table" => TableK(len) = TableP(len)
AtLeastOne == Expected >= 1
MbDocumented == mode = "mb" => /\ Expected >= 10
                               /\ (Expected > 10 => Expected * len * item <= bytes)        \* never more traces than fit
Emit == Gen => PrintT(<<"EMIT", ToJson([mode |-> mode, len |-> len, bytes |-> bytes, item |-> item, bs |-> Expected])>>)
=============================================================================
