------------------------------- MODULE AESRun -------------------------------
(* Step machine: one behaviour per driver-proposed <<key, block>>: encrypt op by op (one action per round operation),  *)
(* then decrypt the result op by op.  The state after every operation is kept in a trail: the code's stop point        *)
(* (at_round r, after_step s) is literally "the state after 4 r + s + 1 transitions".                                  *)
(* (M): decrypt(encrypt(block)) = block on every behaviour; every inverse operation inverts its operation on every state *)
(* met; FIPS-197 known answers (ASSUME).                                                                              *)
EXTENDS SelAES, Json, IOUtils
Inputs == JsonDeserialize(IOEnv.CASES)          \* sequence of [key |-> bytes, block |-> 16 bytes]
VARIABLES case, phase, pos, st, sched, trailE, trailD
vars == <<case, phase, pos, st, sched, trailE, trailD>>
Key == Inputs[case].key
Nr == NrOf(Key)
Init == /\ case \in 1..Len(Inputs) /\ phase = "enc" /\ pos = 1
        /\ st = Inputs[case].block /\ sched = Schedule(Inputs[case].key)
        /\ trailE = <<>> /\ trailD = <<>>
Step == /\ phase \in {"enc", "dec"} /\ pos <= 4 * (Nr + 1)
        /\ LET ops == IF phase = "enc" THEN EncOps(Nr) ELSE DecOps(Nr)
               nxt == Apply(ops[pos], st, RoundKey(sched, KeyIdx(phase, Nr, pos)))
           IN /\ st' = nxt
              /\ trailE' = IF phase = "enc" THEN Append(trailE, nxt) ELSE trailE
              /\ trailD' = IF phase = "dec" THEN Append(trailD, nxt) ELSE trailD
        /\ pos' = pos + 1
        /\ UNCHANGED <<case, phase, sched>>
Turn == /\ pos = 4 * (Nr + 1) + 1
        /\ \/ phase = "enc" /\ phase' = "dec" /\ pos' = 1
           \/ phase = "dec" /\ phase' = "done" /\ pos' = pos
        /\ UNCHANGED <<case, st, sched, trailE, trailD>>
Next == Step \/ Turn
Spec == Init /\ [][Next]_vars

DecryptInvertsEncrypt == phase = "done" => st = Inputs[case].block
\* each inverse operation undoes its operation, on every state the behaviours visit
InversesInvert == /\ InvSubBytes(SubBytes(st)) = st /\ InvShiftRows(ShiftRows(st)) = st /\ InvMixColumns(MixColumns(st)) = st
                  /\ SubBytes(InvSubBytes(st)) = st /\ ShiftRows(InvShiftRows(st)) = st /\ MixColumns(InvMixColumns(st)) = st
\* the master key is recovered from every window of Nk consecutive schedule words (C10 lemma), checked once per behaviour
WindowsRecoverSchedule == (phase = "enc" /\ pos = 1) =>
    \A a \in 0..(4 * (Nr + 1) - Nk(Key)) : ScheduleFromWindow(Nk(Key), 4 * (Nr + 1), a, SubSeq(sched, a + 1, a + Nk(Key))) = sched
\* C07 lemma: every ready-made selection function, fed with the input it is documented to take and the true key word, gives the
\* word of the real cipher state its name designates - for every word, on every behaviour
SelectionLemma == phase = "done" =>
    \A f \in 1..Len(SelFns), w \in 1..16 :
        LET fn == SelFns[f]  ct == trailE[4 * (Nr + 1)]  in == IF UsesCiphertext(fn) THEN ct ELSE Inputs[case].block
            kw == RoundKey(sched, ExpectedKeyRound(fn, Nr))[w]
        IN Hyp(fn, in, kw, w) = Target(fn, trailE, Inputs[case].block, Nr, w)
Emit == phase = "done" => PrintT(<<"EMIT", ToJson([case |-> case, enc |-> trailE, dec |-> trailD, sched |-> sched])>>)

\* ---- model sanity: FIPS-197 known answers ------------------------------------------------------------------------------------
\* The harness always proposes the three Appendix C examples as cases 1..3 (key 00 01 .. , plaintext 00 11 .. ff); the ciphertext the
\* specification reaches for them must be the published one (evaluated inside the step machine: nested evaluation is too deep for TLC).
KAT == <<<<105, 196, 224, 216, 106, 123, 4, 48, 216, 205, 183, 128, 112, 180, 197, 90>>,
         <<221, 169, 124, 164, 134, 76, 223, 224, 110, 175, 112, 160, 236, 13, 113, 145>>,
         <<142, 162, 183, 202, 81, 103, 69, 191, 234, 252, 73, 144, 75, 73, 96, 137>>>>
K128 == <<0, 1, 2, 3, 4, 5, 6, 7, 8, 9, 10, 11, 12, 13, 14, 15>>
PT == <<0, 17, 34, 51, 68, 85, 102, 119, 136, 153, 170, 187, 204, 221, 238, 255>>
KnownAnswers == (case <= 3 /\ phase = "dec" /\ pos = 1) =>
                   /\ Inputs[case].block = PT /\ SubSeq(Inputs[case].key, 1, 16) = K128 /\ Len(Inputs[case].key) = 8 + 8 * case
                   /\ st = KAT[case]
ASSUME GMul(87, 131) = 193                                   \* {57} . {83} = {c1}   (FIPS-197 4.2)
ASSUME SBoxT[0] = 99 /\ SBoxT[83] = 237                       \* S-box({00}) = {63}, S-box({53}) = {ed}
ASSUME \A x \in 0..255 : SBoxT[x] # x /\ InvSBoxT[SBoxT[x]] = x  \* a permutation without fixed point
\* Appendix A.1: last word of the AES-128 schedule of 2b7e1516 28aed2a6 abf71588 09cf4f3c is b6630ca6
ASSUME Schedule(<<43, 126, 21, 22, 40, 174, 210, 166, 171, 247, 21, 136, 9, 207, 79, 60>>)[44] = <<182, 99, 12, 166>>
=============================================================================
