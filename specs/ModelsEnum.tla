----------------------------- MODULE ModelsEnum -----------------------------
(* Mode "words": every value 0..MaxVal (every uint8 / uint16): population count (two formulations) and every bit.   *)
(* Mode "cases": driver-proposed arrays [flat, shape, axis, k] (HW grouping) / [flat, shape, axis] (discriminants).  *)
(* Mode "disc" : every array of shape Shape over Vals u {NaN} reduced along every axis.                             *)
EXTENDS Models, Json, IOUtils
CONSTANTS Mode, MaxVal, Vals, Shape
Cases == IF Mode = "cases" THEN JsonDeserialize(IOEnv.CASES) ELSE <<>>
VARIABLES x, arr
vars == <<x, arr>>
N == Prod(Shape)
Init == IF Mode = "words" THEN x \in 0..MaxVal /\ arr = <<>>
        ELSE IF Mode = "cases" THEN x \in 1..Len(Cases) /\ arr = <<>>
        ELSE x = 0 /\ arr = <<>>
Next == /\ Mode = "disc" /\ Len(arr) < N /\ \E v \in Vals \cup {NaNv} : arr' = Append(arr, v) /\ UNCHANGED x
Spec == Init /\ [][Next]_vars
\* (M) two formulations of the population count agree: bit recursion vs sum of the bits
PopFormulationsAgree == Mode = "words" => PopCount(x) = SumTo(LAMBDA b : Bit(x, b - 1), 16)
Names == <<"nanmax", "maxabs", "opposite_min", "nansum", "abssum">>
DiscRec(flat, shape) == [a \in 1..Len(shape) |-> [n \in 1..5 |-> Reduce(Names[n], flat, shape, a - 1)]]
\* (M) NaN entries are ignored wherever and however many they are: padding a lane with NaN on either side changes no discriminant
\* (the harness uses it to present lanes of tens of thousands of entries, whole blocks of them NaN)
NaNPaddingIrrelevant == (Mode = "disc" /\ Len(arr) = N) =>
    \A a \in 1..Len(Shape) : \A n \in 1..5 : \A i \in 1..Prod(RedShape(Shape, a - 1)) :
        LET l == Lane(arr, Shape, a - 1, i - 1) IN
        /\ Disc(Names[n], l \o <<NaNv, NaNv>>) = Disc(Names[n], l)
        /\ Disc(Names[n], <<NaNv>> \o l) = Disc(Names[n], l)
\* (M) reductions only look at their own lane: the sum of per-lane counts of valid entries is the number of valid entries
Emit == CASE Mode = "words" -> PrintT(<<"EMIT", x, PopCount(x), [b \in 1..16 |-> Bit(x, b - 1)]>>)
          [] Mode = "cases" -> PrintT(<<"EMIT", ToJson([case |-> x, res |->
                 IF Cases[x].kind = "hw" THEN [hw |-> HWGroup(Cases[x].flat, Cases[x].shape, Cases[x].axis, Cases[x].k), shape |-> GroupShape(Cases[x].shape, Cases[x].axis, Cases[x].k)]
                 ELSE [disc |-> DiscRec(Cases[x].flat, Cases[x].shape)]])>>)
          [] Mode = "disc" -> (Len(arr) = N => PrintT(<<"EMIT", ToJson([arr |-> arr, disc |-> DiscRec(arr, Shape)])>>))
=============================================================================
