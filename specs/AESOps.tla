------------------------------- MODULE AESOps -------------------------------
(* Single round operations on states that take every byte value at every position: state v of family f has byte k      *)
(* equal to (v + Mult[f] * k) mod 256, v = 0..255.  One emitted record per (operation, family) with the 256 results.    *)
EXTENDS AES, Json
VARIABLES op, fam
Ops == <<"sb", "isb", "sr", "isr", "mc", "imc", "ark">>
Mult == <<0, 17, 101>>
Init == op \in 1..7 /\ fam \in 1..4
Next == UNCHANGED <<op, fam>>
Spec == Init /\ [][Next]_<<op, fam>>
\* family 4: every byte below 128 (states and keys that a signed 8-bit array can carry)
StateOf(v, f) == IF f = 4 THEN [k \in 1..16 |-> (v + 5 * k) % 128] ELSE [k \in 1..16 |-> (v + Mult[f] * k) % 256]
KeyOf(v) == [k \in 1..16 |-> IF fam = 4 THEN (3 * v + 29 * k + 7) % 128 ELSE (3 * v + 29 * k + 7) % 256]
\* AddRoundKey twice with the same key is the identity (model sanity)
ArkInvolution == \A v \in {0, 1, 77, 255} : AddRoundKey(AddRoundKey(StateOf(v, fam), KeyOf(v)), KeyOf(v)) = StateOf(v, fam)
Emit == PrintT(<<"EMIT", ToJson([op |-> Ops[op], fam |-> fam, out |-> [v \in 1..256 |-> Apply(Ops[op], StateOf(v - 1, fam), KeyOf(v - 1))]])>>)
=============================================================================
