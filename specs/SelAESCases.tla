----------------------------- MODULE SelAESCases -----------------------------
(* Full hypothesis tables of the AES selection functions for driver-proposed input blocks: table[fn][g + 1][w].           *)
EXTENDS SelAES, Json, IOUtils
Blocks == JsonDeserialize(IOEnv.CASES)
VARIABLES i, f
Init == i \in 1..Len(Blocks) /\ f \in 1..Len(SelFns)
Next == UNCHANGED <<i, f>>
Spec == Init /\ [][Next]_<<i, f>>
Emit == PrintT(<<"EMIT", ToJson([i |-> i, fn |-> SelFns[f], tab |-> [g \in 1..256 |-> [w \in 1..16 |-> Hyp(SelFns[f], Blocks[i], g - 1, w)]]])>>)
=============================================================================
