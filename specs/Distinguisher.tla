---------------------------- MODULE Distinguisher ----------------------------
(* History machine of one incremental distinguisher (C01, and the carrier of C03/C04/C11/C12/C16).    *)
(* Mechanism (K): the code's accumulators grow by  acc += Contribution(batch)  on every update;        *)
(* compute reads them.  Property (P), as invariants: the state is a function of the accepted rows      *)
(* only (so every split gives the same state), compute changes nothing, a rejected call changes        *)
(* nothing.  Cases (configuration + dataset) are proposed by the driver in a JSON file; TLC explores   *)
(* EVERY history over them: every ordered partition into non-empty batches, every placement of 0..2    *)
(* compute calls between / after batches, optionally rejected calls anywhere.                          *)
EXTENDS DistOps, Json, IOUtils

CONSTANTS MaxBatches,      \* bound on the number of update calls of a history
          MaxComputes,     \* consecutive compute calls allowed at one point (2: "asking twice")
          MaxRejects,      \* rejected calls per history (0 for C01, > 0 for C16)
          RecordHist       \* TRUE in generation mode: carry the operation history and emit it

Cases == JsonDeserialize(IOEnv.CASES)     \* sequence of [c |-> config, rows |-> dataset, faults |-> applicable reject kinds]

VARIABLES case, pos, n, inited, acc, comps, rej, nb, hist
vars == <<case, pos, n, inited, acc, comps, rej, nb, hist>>

Cfg == Cases[case].c
Rows == Cases[case].rows
N == Len(Rows)

Init == /\ case \in 1..Len(Cases)
        /\ pos = 0 /\ n = 0 /\ inited = FALSE /\ comps = 0 /\ rej = 0 /\ nb = 0
        /\ acc = Zero(Cases[case].c)
        /\ hist = <<>>

Log(e) == hist' = IF RecordHist THEN Append(hist, e) ELSE hist

\* K: accumulate the next k rows on top of the current accumulators
Update(k) == /\ pos + k <= N /\ nb < MaxBatches
             /\ (nb + 1 = MaxBatches => pos + k = N)          \* the last allowed batch takes the rest
             /\ LET batch == SubSeq(Rows, pos + 1, pos + k)
                    a2 == Plus(acc, Contribution(Cfg, batch)) IN
                /\ acc' = a2 /\ n' = n + k /\ pos' = pos + k /\ inited' = TRUE /\ nb' = nb + 1
                /\ comps' = 0
                /\ Log([op |-> "update", k |-> k, n |-> n + k, acc |-> a2])
             /\ UNCHANGED <<case, rej>>

\* compute is refused before any trace was processed, otherwise it is a pure read
Compute == /\ comps < MaxComputes
           /\ comps' = comps + 1
           /\ Log([op |-> IF n > 0 THEN "compute" ELSE "compute_refused", k |-> 0, n |-> n, acc |-> acc])
           /\ UNCHANGED <<case, pos, n, inited, acc, rej, nb>>

\* P: a rejected call leaves everything as it was (fault kinds are interpreted by the harness)
\* a fault kind is applicable "any" time, only once "inited" (a shape differing from earlier batches), or only as
\* the "first" call (faults detected by the first-call initialisation)
Applicable(f) == LET w == Cases[case].faults[f].when IN
                 w = "any" \/ (w = "inited" /\ inited) \/ (w = "first" /\ ~inited)
Reject(f) == /\ rej < MaxRejects /\ Applicable(f)
             /\ rej' = rej + 1 /\ comps' = 0
             /\ Log([op |-> "reject", k |-> f, n |-> n, acc |-> acc])
             /\ UNCHANGED <<case, pos, n, inited, acc, nb>>

Next == \/ \E k \in 1..N : Update(k)
        \/ Compute
        \/ \E f \in 1..Len(Cases[case].faults) : Reject(f)

Spec == Init /\ [][Next]_vars

\* ---- P-layer invariants -----------------------------------------------------------------------
StateIsFunctionOfPrefix == acc = Contribution(Cfg, SubSeq(Rows, 1, pos))     \* split invariance
CountMatches == n = pos
InitedIffFed == inited <=> (nb > 0)
ComputePure == [][comps' > comps => UNCHANGED <<acc, n, inited, pos>>]_vars
RejectPure == [][rej' > rej => UNCHANGED <<acc, n, inited, pos>>]_vars

\* ---- generation: one EMIT per complete history -------------------------------------------------
Complete == pos = N
Emit == (RecordHist /\ Complete) => PrintT(<<"EMIT", ToJson([case |-> case, hist |-> hist])>>)
=============================================================================
