--------------------------- MODULE DistinguisherK ---------------------------
(* Mechanism layer (K) of DistinguisherMixin.update (scared/distinguishers/base.py): one action per     *)
(* statement group of the code, with a raise possible wherever the code can raise.  The property (C16)  *)
(* is stated on the states observed between calls (pc = "idle"): a call that raises leaves marker,      *)
(* count and accumulators as at call entry; a valid call is always accepted.                            *)
(*                                                                                                      *)
(* Two step orders are modelled.  Variant "pinned" is the order of the pinned upstream tree:            *)
(*   TypeCheck -> MarkShape -> Initialize -> Check -> Count -> Update(_update: KindCheck, Accumulate)   *)
(* TLC refutes C16 on it (raise in KindCheck after Count; raise in Initialize/Check after MarkShape).    *)
(* Variant "fixed" is the repaired order (count after a successful _update; marker removed when the     *)
(* first call fails).  The check requires: "fixed" satisfies the invariants, "pinned" is refuted (so    *)
(* the model stays sensitive), and the real code replays like "fixed".                                  *)
EXTENDS Integers, Sequences, TLC

CONSTANTS Variant,          \* "pinned" | "fixed"
          MaxCalls, MaxK

Faults == {"none", "type", "init", "check", "kind"}
\* where each fault is detected:  type: isinstance / row-count tests;  init: _initialize (first call only: DPA
\* non-binary data, undeclared classes out of range, matching before build);  check: _check (template word
\* count);  kind: consistency tests at the top of the concrete _update (trace length / word count)

VARIABLES pc, call, marker, initd, n, acc, saved, outcome, calls
vars == <<pc, call, marker, initd, n, acc, saved, outcome, calls>>

Init == /\ pc = "idle" /\ call = [k |-> 0, fault |-> "none", first |-> FALSE]
        /\ marker = FALSE /\ initd = FALSE /\ n = 0 /\ acc = 0
        /\ saved = [marker |-> FALSE, initd |-> FALSE, n |-> 0, acc |-> 0]
        /\ outcome = "none" /\ calls = 0

Begin(k, f) == /\ pc = "idle" /\ calls < MaxCalls
               /\ (f = "kind" => marker)             \* a shape can only differ from earlier batches
               /\ (f = "init" => ~marker)            \* _initialize only runs on the first call
               /\ call' = [k |-> k, fault |-> f, first |-> ~marker]
               /\ saved' = [marker |-> marker, initd |-> initd, n |-> n, acc |-> acc]
               /\ pc' = "typecheck" /\ outcome' = "running" /\ calls' = calls + 1
               /\ UNCHANGED <<marker, initd, n, acc>>

Goto(l) == pc' = l /\ UNCHANGED <<call, marker, initd, n, acc, saved, outcome, calls>>

\* the exception propagates to the caller; "fixed" removes the marker set by this very call
Raise == /\ pc' = "idle" /\ outcome' = "raised"
         /\ IF Variant = "fixed" /\ call.first
            THEN marker' = FALSE /\ initd' = FALSE
            ELSE UNCHANGED <<marker, initd>>
         /\ UNCHANGED <<call, n, acc, saved, calls>>

TypeCheck == pc = "typecheck" /\ IF call.fault = "type" THEN Raise ELSE Goto("mark")

MarkShape == /\ pc = "mark"
             /\ IF marker THEN Goto("check")
                ELSE /\ marker' = TRUE /\ pc' = "init"
                     /\ UNCHANGED <<call, initd, n, acc, saved, outcome, calls>>

Initialize == /\ pc = "init"
              /\ IF call.fault = "init" THEN Raise
                 ELSE /\ initd' = TRUE /\ acc' = 0 /\ pc' = "check"
                      /\ UNCHANGED <<call, marker, n, saved, outcome, calls>>

Check == pc = "check" /\ IF call.fault = "check" THEN Raise
                          ELSE Goto(IF Variant = "pinned" THEN "count" ELSE "update")

Count == /\ pc = "count"
         /\ n' = n + call.k
         /\ pc' = IF Variant = "pinned" THEN "update" ELSE "done"
         /\ UNCHANGED <<call, marker, initd, acc, saved, outcome, calls>>

\* _update: consistency tests first, then the additive accumulation; accumulating into accumulators that were
\* never created raises (AttributeError in the code)
Update == /\ pc = "update"
          /\ IF call.fault = "kind" \/ ~initd THEN Raise
             ELSE /\ acc' = acc + call.k
                  /\ pc' = IF Variant = "pinned" THEN "done" ELSE "count"
                  /\ UNCHANGED <<call, marker, initd, n, saved, outcome, calls>>

Done == /\ pc = "done" /\ pc' = "idle" /\ outcome' = "accepted"
        /\ UNCHANGED <<call, marker, initd, n, acc, saved, calls>>

Next == \/ \E k \in 1..MaxK, f \in Faults : Begin(k, f)
        \/ TypeCheck \/ MarkShape \/ Initialize \/ Check \/ Count \/ Update \/ Done

Spec == Init /\ [][Next]_vars

\* ---- C16 on the observed (idle) states ------------------------------------------------------------
Idle == pc = "idle"
RejectedLeavesNoTrace == (Idle /\ outcome = "raised") =>
        /\ n = saved.n /\ acc = saved.acc /\ marker = saved.marker /\ initd = saved.initd
AcceptedAccumulates == (Idle /\ outcome = "accepted") =>
        /\ n = saved.n + call.k /\ acc = (IF saved.initd THEN saved.acc ELSE 0) + call.k /\ marker /\ initd
ValidCallAccepted == (Idle /\ outcome = "raised") => call.fault # "none"
FaultyCallRaises == (Idle /\ outcome = "accepted") => call.fault = "none"
CountEqualsAccumulated == Idle => n = acc          \* processed_traces always equals the number of traces summed
=============================================================================
