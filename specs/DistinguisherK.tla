--------------------------- MODULE DistinguisherK ---------------------------
(* Mechanism layer (K) of DistinguisherMixin.update (scared/distinguishers/base.py): one action per     *)
(* statement group of the code, with a raise possible wherever the code can raise.  The property (C16)  *)
(* is stated on the states observed between calls (pc = "idle"): a call that raises leaves marker,      *)
(* count and accumulators as at call entry; a valid call is always accepted.                            *)
(*                                                                                                      *)
(* Two step orders are modelled.  Variant "pinned" is the order of the pinned upstream tree:            *)
(*   TypeCheck -> MarkShape -> Initialize -> Check -> Count -> Update(_update: KindCheck, Accumulate)   *)
(* TLC refutes C16 on it (raise in KindCheck after Count; raise in Initialize/Check after MarkShape).    *)
(* Variant "fixed" is the repaired order (count after a successful _update; marker removed when the     *)
(* first call fails).  The check requires: "fixed" satisfies the invariants, "pinned" is refuted (so    *)
(* the model stays sensitive), and the real code replays like "fixed".                                  *)
EXTENDS Integers, Sequences, TLC

CONSTANTS Variant,          \* "pinned" (upstream) | "marker" (first repair: only the marker is rolled back) | "fixed" (the whole first call is rolled back)
          MaxCalls, MaxK

Faults == {"none", "type", "init", "check", "kind", "late"}
\* where each fault is detected:  type: isinstance / row-count tests;  init: _initialize (first call only: DPA
\* non-binary data, undeclared classes out of range, matching before build);  check: _check (template word
\* count);  kind: consistency tests at the top of the concrete _update (trace length / word count)

\* late: raised inside _update at any call, also the first (e.g. floating-point intermediate data refused by the class lookup table)
\* derived: configuration the first call derives from its batch (the automatic class set): 0 = none, else the size of the batch it came from
VARIABLES pc, call, marker, initd, n, acc, saved, outcome, calls, derived
vars == <<pc, call, marker, initd, n, acc, saved, outcome, calls, derived>>

Init == /\ pc = "idle" /\ call = [k |-> 0, fault |-> "none", first |-> FALSE]
        /\ marker = FALSE /\ initd = FALSE /\ n = 0 /\ acc = 0
        /\ saved = [marker |-> FALSE, initd |-> FALSE, n |-> 0, acc |-> 0, derived |-> 0]
        /\ outcome = "none" /\ calls = 0 /\ derived = 0

Begin(k, f) == /\ pc = "idle" /\ calls < MaxCalls
               /\ (f = "kind" => marker)             \* a shape can only differ from earlier batches
               /\ (f = "init" => ~marker)            \* _initialize only runs on the first call
               /\ call' = [k |-> k, fault |-> f, first |-> ~marker]
               /\ saved' = [marker |-> marker, initd |-> initd, n |-> n, acc |-> acc, derived |-> derived]
               /\ pc' = "typecheck" /\ outcome' = "running" /\ calls' = calls + 1
               /\ UNCHANGED <<marker, initd, n, acc, derived>>

Goto(l) == pc' = l /\ UNCHANGED <<call, marker, initd, n, acc, saved, outcome, calls, derived>>

\* the exception propagates to the caller; "fixed" removes the marker set by this very call
Raise == /\ pc' = "idle" /\ outcome' = "raised"
         /\ IF Variant \in {"fixed", "marker"} /\ call.first
            THEN marker' = FALSE /\ initd' = FALSE /\ derived' = (IF Variant = "fixed" THEN saved.derived ELSE derived)
            ELSE UNCHANGED <<marker, initd, derived>>
         /\ UNCHANGED <<call, n, acc, saved, calls>>

TypeCheck == pc = "typecheck" /\ IF call.fault = "type" THEN Raise ELSE Goto("mark")

MarkShape == /\ pc = "mark"
             /\ IF marker THEN Goto("check")
                ELSE /\ marker' = TRUE /\ pc' = "init"
                     /\ UNCHANGED <<call, initd, n, acc, saved, outcome, calls, derived>>

Initialize == /\ pc = "init"
              /\ IF call.fault = "init" THEN Raise
                 ELSE /\ initd' = TRUE /\ acc' = 0 /\ pc' = "check"
                      /\ derived' = (IF derived = 0 THEN call.k ELSE derived)
                      /\ UNCHANGED <<call, marker, n, saved, outcome, calls>>

Check == pc = "check" /\ IF call.fault = "check" THEN Raise
                          ELSE Goto(IF Variant = "pinned" THEN "count" ELSE "update")

Count == /\ pc = "count"
         /\ n' = n + call.k
         /\ pc' = IF Variant = "pinned" THEN "update" ELSE "done"
         /\ UNCHANGED <<call, marker, initd, acc, saved, outcome, calls, derived>>

\* _update: consistency tests first, then the additive accumulation; accumulating into accumulators that were
\* never created raises (AttributeError in the code)
Update == /\ pc = "update"
          /\ IF call.fault \in {"kind", "late"} \/ ~initd THEN Raise
             ELSE /\ acc' = acc + call.k
                  /\ pc' = IF Variant = "pinned" THEN "done" ELSE "count"
                  /\ UNCHANGED <<call, marker, initd, n, saved, outcome, calls, derived>>

Done == /\ pc = "done" /\ pc' = "idle" /\ outcome' = "accepted"
        /\ UNCHANGED <<call, marker, initd, n, acc, saved, calls, derived>>

Next == \/ \E k \in 1..MaxK, f \in Faults : Begin(k, f)
        \/ TypeCheck \/ MarkShape \/ Initialize \/ Check \/ Count \/ Update \/ Done

Spec == Init /\ [][Next]_vars

\* ---- C16 on the observed (idle) states ------------------------------------------------------------
Idle == pc = "idle"
RejectedLeavesNoTrace == (Idle /\ outcome = "raised") =>
        /\ n = saved.n /\ acc = saved.acc /\ marker = saved.marker /\ initd = saved.initd /\ derived = saved.derived
AcceptedAccumulates == (Idle /\ outcome = "accepted") =>
        /\ n = saved.n + call.k /\ acc = (IF saved.initd THEN saved.acc ELSE 0) + call.k /\ marker /\ initd
        /\ derived = (IF saved.derived = 0 THEN call.k ELSE saved.derived)      \* configuration comes from the first ACCEPTED batch
ValidCallAccepted == (Idle /\ outcome = "raised") => call.fault # "none"
FaultyCallRaises == (Idle /\ outcome = "accepted") => call.fault = "none"
CountEqualsAccumulated == Idle => n = acc          \* processed_traces always equals the number of traces summed
=============================================================================
