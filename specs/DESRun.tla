------------------------------- MODULE DESRun -------------------------------
(* Step machine, one transition per Feistel round: behaviours for driver-proposed <<keys (1..3 x 8 bytes), block>>.       *)
(* Passes of TDES (EDE): encrypt = E_K1, D_K2, E_K3 (K3 = K1 for two keys); decrypt = D_K3, E_K2, D_K1.  "D" = the same     *)
(* rounds with the schedule reversed.  No FP / IP between passes: the next pass starts from [R16 | L16].                    *)
(* The trail records the ten views of every round of every pass as seen by a caller who stops in that pass (view 9 of     *)
(* round 16 is then the final permutation).  After encrypting, the ciphertext is decrypted:    *)
(* (M) decrypt(encrypt(x)) = x; FP = IP^-1; P^-1 o P = id; parity bits never influence a round key.                          *)
EXTENDS SelDES, Json, IOUtils
Inputs == JsonDeserialize(IOEnv.CASES)        \* [keys |-> <<k1 (8 bytes), k2?, k3?>>, block |-> 8 bytes]
VARIABLES case, mode, pass, round, L, R, trail, sched
vars == <<case, mode, pass, round, L, R, trail, sched>>
NK == Len(Inputs[case].keys)
NPass == IF NK = 1 THEN 1 ELSE 3
\* which master key a pass uses, and whether its schedule is reversed
KeyOfPass(m, p) == IF NK = 1 THEN 1
                   ELSE IF m = "enc" THEN (IF p = 3 THEN (IF NK = 2 THEN 1 ELSE 3) ELSE p)
                   ELSE (IF p = 2 THEN 2 ELSE IF NK = 2 THEN 1 ELSE (IF p = 1 THEN 3 ELSE 1))
Reversed(m, p) == IF m = "enc" THEN p = 2 ELSE p # 2
RK(m, p, r) == LET ks == sched[KeyOfPass(m, p)] IN IF Reversed(m, p) THEN ks[17 - r] ELSE ks[r]       \* r = 1..16

Init == /\ case \in 1..Len(Inputs) /\ mode = "enc" /\ pass = 1 /\ round = 1
        /\ LET b == IP(Bits(Inputs[case].block)) IN L = SubSeq(b, 1, 32) /\ R = SubSeq(b, 33, 64)
        /\ sched = [k \in 1..Len(Inputs[case].keys) |-> KeySchedule(Bits(Inputs[case].keys[k]))]
        /\ trail = [enc |-> <<>>, dec |-> <<>>]
Round == /\ mode \in {"enc", "dec"} /\ round <= 16
         /\ LET k == RK(mode, pass, round)
                vw == Views(L, R, k, round = 16)
                r2 == XorB(L, F(R, k)) IN
            /\ trail' = [trail EXCEPT ![mode] = Append(@, vw)]
            /\ IF round < 16 THEN L' = R /\ R' = r2 /\ round' = round + 1 /\ UNCHANGED <<pass, mode>>
               ELSE IF pass < NPass THEN L' = r2 /\ R' = R /\ round' = 1 /\ pass' = pass + 1 /\ UNCHANGED mode      \* next pass starts from [R16 | L16]
               ELSE IF mode = "enc"
                    THEN LET ct == FP(r2 \o R)  b == IP(ct) IN                                                     \* ciphertext; start decrypting it
                         L' = SubSeq(b, 1, 32) /\ R' = SubSeq(b, 33, 64) /\ round' = 1 /\ pass' = 1 /\ mode' = "dec"
                    ELSE L' = r2 /\ R' = R /\ round' = 17 /\ mode' = "done" /\ UNCHANGED pass
         /\ UNCHANGED <<case, sched>>
Next == Round
Spec == Init /\ [][Next]_vars

DecryptInvertsEncrypt == mode = "done" => Bytes(FP(L \o R)) = Inputs[case].block
FPInvertsIP == FP(IP(L \o R)) = L \o R /\ IP(FP(L \o R)) = L \o R /\ PInv(P(L)) = L /\ P(PInv(R)) = R
\* flipping every parity bit of the first key does not change its schedule
ParityIrrelevant == (mode = "enc" /\ pass = 1 /\ round = 1) =>
    KeySchedule([i \in 1..64 |-> IF i % 8 = 0 THEN 1 - Bits(Inputs[case].keys[1])[i] ELSE Bits(Inputs[case].keys[1])[i]]) = sched[1]
\* classic known answer: key 133457799BBCDFF1, block 0123456789ABCDEF -> 85E813540F0AB405 (the harness proposes it as case 1)
KnownAnswer == (case = 1 /\ mode = "dec" /\ pass = 1 /\ round = 1) =>
    /\ Inputs[1].keys = <<<<19, 52, 87, 121, 155, 188, 223, 241>>>> /\ Inputs[1].block = <<1, 35, 69, 103, 137, 171, 205, 239>>
    /\ Bytes(FP(L \o R)) = <<133, 232, 19, 84, 15, 10, 180, 5>>
\* C07 lemma (single DES): hypothesis under the true round-key word = the designated word of the real cipher run
SelectionLemma == (mode = "done" /\ NK = 1) =>
    \A f \in 1..Len(SelFns), w \in 1..8 :
        LET fn == SelFns[f]  ct == trail.enc[16][10]  in == IF UsesCiphertext(fn) THEN ct ELSE Inputs[case].block
            kw == Words(sched[1][ExpectedKeyRound(fn)], 6)[w]
        IN Hyp(fn, in, kw, w) = Target(fn, trail.enc, w)
Emit == mode = "done" => PrintT(<<"EMIT", ToJson([case |-> case, enc |-> trail.enc, dec |-> trail.dec,
                                                   rk |-> [k \in 1..NK |-> [r \in 1..16 |-> Words(sched[k][r], 6)]]])>>)
=============================================================================
