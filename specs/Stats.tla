------------------------------- MODULE Stats -------------------------------
(* Definitions (P) of the statistics scared computes, written from their textbook meaning on the raw   *)
(* observations in exact rational arithmetic, and next to each the quantity AS THE CODE COMPUTES IT (K) *)
(* from its accumulators.  An observation list `ps` is a sequence of pairs <<x, v>>: x the sample of a  *)
(* trace at one time index, v the intermediate value of one word for that trace.                       *)
(* NaN = <<0,0>>, +-Inf = <<+-1,0>> (module Num); IEEE division rules are those of Num!RDiv.            *)
EXTENDS Num

N(ps) == Len(ps)
SX(ps) == SumTo(LAMBDA i : ps[i][1], Len(ps))
SY(ps) == SumTo(LAMBDA i : ps[i][2], Len(ps))
SXX(ps) == SumTo(LAMBDA i : ps[i][1] * ps[i][1], Len(ps))
SYY(ps) == SumTo(LAMBDA i : ps[i][2] * ps[i][2], Len(ps))
SXY(ps) == SumTo(LAMBDA i : ps[i][1] * ps[i][2], Len(ps))

(* ---------------------------------------- Pearson (C03) ------------------------------------------- *)
(* certificate <<num, dx, dy>> : r = num / sqrt(dx * dy), undefined (NaN) iff dx * dy = 0               *)
\* formulation 1: raw moments
PearsonRaw(ps) == LET n == N(ps) IN <<n * SXY(ps) - SX(ps) * SY(ps), n * SXX(ps) - SX(ps) * SX(ps), n * SYY(ps) - SY(ps) * SY(ps)>>
\* formulation 2: centred deviations, scaled by n to stay in the integers: (n x_i - Sx) = n (x_i - mean)
PearsonCentred(ps) == LET n == N(ps)  sx == SX(ps)  sy == SY(ps) IN
   <<SumTo(LAMBDA i : (n * ps[i][1] - sx) * (n * ps[i][2] - sy), n),
     SumTo(LAMBDA i : (n * ps[i][1] - sx) * (n * ps[i][1] - sx), n),
     SumTo(LAMBDA i : (n * ps[i][2] - sy) * (n * ps[i][2] - sy), n)>>
\* the two formulations describe the same coefficient: centred = n * raw, component-wise
PearsonFormulationsAgree(ps) == LET a == PearsonRaw(ps)  b == PearsonCentred(ps)  n == N(ps) IN
   b[1] = n * a[1] /\ b[2] = n * a[2] /\ b[3] = n * a[3]
\* Cauchy-Schwarz on the certificate: num^2 <= dx*dy, so |r| <= 1 and a zero denominator forces a zero numerator
PearsonBounded(ps) == LET a == PearsonRaw(ps) IN a[1] * a[1] <= a[2] * a[3] /\ a[2] >= 0 /\ a[3] >= 0

(* K: CPADistinguisherMixin._compute: (xy - ex*(y/n)) / (sqrt(ex2 - n*(ex/n)^2) * sqrt(ey2 - n*(ey/n)^2)), inf -> nan *)
(* as <<sign, r^2 as a rational>> so that no square root is needed                                      *)
CpaK(acc, n) == LET num == RSub(RInt(acc.sxy), RMul(RInt(acc.sx), Rat(acc.sy, n)))
                    c1 == RSub(RInt(acc.sxx), RMul(RInt(n), RSq(Rat(acc.sx, n))))
                    c2 == RSub(RInt(acc.syy), RMul(RInt(n), RSq(Rat(acc.sy, n))))
                IN <<Sign(num[1]), InfToNaN(RDiv(RSq(num), RMul(c1, c2)))>>
(* K: CPAAlternativeDistinguisherMixin._compute: (n*exy - ey*ex) / (sqrt(n*ey2 - ey^2) * sqrt(n*ex2 - ex^2)); NO inf->nan *)
CpaAltK(acc, n) == LET num == n * acc.sxy - acc.sy * acc.sx
                       d1 == n * acc.sxx - acc.sx * acc.sx
                       d2 == n * acc.syy - acc.sy * acc.sy
                   IN <<Sign(num), RDiv(RInt(num * num), RInt(d1 * d2))>>
PearsonP(ps) == LET a == PearsonRaw(ps) IN <<Sign(a[1]), IF a[2] * a[3] = 0 THEN NaN ELSE Rat(a[1] * a[1], a[2] * a[3])>>
AccOf(ps) == [sx |-> SX(ps), sy |-> SY(ps), sxx |-> SXX(ps), syy |-> SYY(ps), sxy |-> SXY(ps)]
SameR(a, b) == a[2] = b[2] /\ (IsNaN(a[2]) \/ a[1] = b[1])
CpaKMatchesP(ps) == SameR(CpaK(AccOf(ps), N(ps)), PearsonP(ps)) /\ SameR(CpaAltK(AccOf(ps), N(ps)), PearsonP(ps))

(* ---------------------------------- difference of means (C03) ------------------------------------- *)
(* v is a bit. certificate <<sum1, n1, sum0, n0>> ; value = sum1/n1 - sum0/n0 ; NaN iff a class is empty *)
Ones(ps) == SelectSeq(ps, LAMBDA p : p[2] = 1)
Zeros(ps) == SelectSeq(ps, LAMBDA p : p[2] = 0)
DoMCert(ps) == <<SX(Ones(ps)), Len(Ones(ps)), SX(Zeros(ps)), Len(Zeros(ps))>>
DoMP(ps) == IF Len(Ones(ps)) = 0 \/ Len(Zeros(ps)) = 0 THEN NaN ELSE RSub(Rat(SX(Ones(ps)), Len(Ones(ps))), Rat(SX(Zeros(ps)), Len(Zeros(ps))))
(* K: DPADistinguisherMixin._compute: ones/n1 - (all - ones)/(n - n1) with IEEE division               *)
DpaK(st, s1, n1, n) == RSub(RDiv(RInt(s1), RInt(n1)), RDiv(RInt(st - s1), RInt(n - n1)))
DpaKMatchesP(ps) == DpaK(SX(ps), SX(Ones(ps)), Len(Ones(ps)), N(ps)) = DoMP(ps)

(* ------------------------------ one-way class statistics (C04) ------------------------------------ *)
(* classes: a sequence of declared class VALUES; observations whose v is not declared are ignored;      *)
(* statistics range over the non-empty declared classes.                                               *)
Member(ps, cv) == SelectSeq(ps, LAMBDA p : p[2] = cv)
DeclaredObs(ps, classes) == SelectSeq(ps, LAMBDA p : \E k \in 1..Len(classes) : classes[k] = p[2])
NonEmpty(ps, classes) == SelectSeq(classes, LAMBDA cv : Len(Member(ps, cv)) > 0)
Mean(ps) == Rat(SX(ps), Len(ps))
\* sum of squared deviations from a rational centre m
SSDev(ps, m) == RSumTo(LAMBDA i : RSq(RSub(RInt(ps[i][1]), m)), Len(ps))

SSB(ps, classes) == LET d == DeclaredObs(ps, classes)  ne == NonEmpty(ps, classes)  m == Mean(d) IN
   RSumTo(LAMBDA k : RMul(RInt(Len(Member(d, ne[k]))), RSq(RSub(Mean(Member(d, ne[k])), m))), Len(ne))
SSW(ps, classes) == LET d == DeclaredObs(ps, classes)  ne == NonEmpty(ps, classes) IN
   RSumTo(LAMBDA k : SSDev(Member(d, ne[k]), Mean(Member(d, ne[k]))), Len(ne))
SST(ps, classes) == LET d == DeclaredObs(ps, classes) IN SSDev(d, Mean(d))
\* the decomposition of the total sum of squares (sanity of the definitions themselves)
SSDecomposes(ps, classes) == Len(DeclaredObs(ps, classes)) > 0 => RAdd(SSB(ps, classes), SSW(ps, classes)) = SST(ps, classes)

FStat(ps, classes) == LET n == Len(DeclaredObs(ps, classes))  k == Len(NonEmpty(ps, classes)) IN
   IF n = 0 THEN NaN ELSE
   InfToNaN(RDiv(RDiv(SSB(ps, classes), RInt(k - 1)), RDiv(SSW(ps, classes), RInt(n - k))))
Nicv(ps, classes) == LET n == Len(DeclaredObs(ps, classes)) IN
   IF n = 0 THEN NaN ELSE InfToNaN(RDiv(RDiv(SSB(ps, classes), RInt(n)), RDiv(SST(ps, classes), RInt(n))))
\* SNR: mean over classes of (class mean - overall mean)^2  /  mean over classes of the within-class (population) variance
Snr(ps, classes) == LET d == DeclaredObs(ps, classes)  ne == NonEmpty(ps, classes)  k == Len(ne) IN
   IF Len(d) = 0 THEN NaN ELSE
   LET m == Mean(d)
       sig == RSumTo(LAMBDA j : RSq(RSub(Mean(Member(d, ne[j])), m)), k)
       noi == RSumTo(LAMBDA j : RDiv(SSDev(Member(d, ne[j]), Mean(Member(d, ne[j]))), RInt(Len(Member(d, ne[j])))), k)
   IN InfToNaN(RDiv(RDiv(sig, RInt(k)), RDiv(noi, RInt(k))))

(* K: the three _compute_metric of partitioned.py from per-class <<count, sum, sum of squares>> (non-empty *)
(* classes, in class order) and the DECLARED number of classes                                          *)
TermsOf(ps, classes) == LET ne == NonEmpty(ps, classes) IN
   [j \in 1..Len(ne) |-> <<Len(Member(ps, ne[j])), SX(Member(ps, ne[j])), SXX(Member(ps, ne[j]))>>]
TN(ts) == SumTo(LAMBDA j : ts[j][1], Len(ts))
TS(ts) == SumTo(LAMBDA j : ts[j][2], Len(ts))
AnovaK(ts) == LET k == Len(ts)  n == TN(ts)  mean == RDiv(RInt(TS(ts)), RInt(n))
                  numer == RDiv(RSumTo(LAMBDA j : RMul(RInt(ts[j][1]), RSq(RSub(Rat(ts[j][2], ts[j][1]), mean))), k), RInt(k - 1))
                  denom == RDiv(RSumTo(LAMBDA j : RSub(RInt(ts[j][3]), RDiv(RInt(ts[j][2] * ts[j][2]), RInt(ts[j][1]))), k), RInt(n - k))
              IN InfToNaN(RDiv(numer, denom))
NicvK(ts) == LET k == Len(ts)  n == TN(ts)  mean == RDiv(RInt(TS(ts)), RInt(n))
                 numer == RSumTo(LAMBDA j : RMul(RSq(RSub(Rat(ts[j][2], ts[j][1]), mean)), RDiv(RInt(ts[j][1]), RInt(n))), k)
                 denom == RSub(RDiv(RInt(SumTo(LAMBDA j : ts[j][3], k)), RInt(n)), RSq(mean))
             IN InfToNaN(RDiv(numer, denom))
SnrK(ts, declared) == LET k == Len(ts)  n == TN(ts)  mean == RDiv(RInt(TS(ts)), RInt(n))
                 numer == RDiv(RSumTo(LAMBDA j : RSq(RSub(Rat(ts[j][2], ts[j][1]), mean)), k), RInt(declared))
                 denom == RDiv(RSumTo(LAMBDA j : RSub(Rat(ts[j][3], ts[j][1]), RSq(Rat(ts[j][2], ts[j][1]))), k), RInt(declared))
             IN InfToNaN(RDiv(numer, denom))
PartKMatchesP(ps, classes) == LET ts == TermsOf(ps, classes) IN
   /\ AnovaK(ts) = FStat(ps, classes)
   /\ NicvK(ts) = Nicv(ps, classes)
   /\ SnrK(ts, Len(classes)) = Snr(ps, classes)


(* ------------------------------------------ Welch t (C09) ------------------------------------------ *)
(* xs, ys: sequences of integers (one sample column of the two trace sets); population variances.       *)
(* certificate <<d, q>>: t = d / sqrt(q) with d = mean1 - mean2 and q = var1/n1 + var2/n2 (rationals)    *)
SeqSum(xs) == SumTo(LAMBDA i : xs[i], Len(xs))
SeqSq(xs) == SumTo(LAMBDA i : xs[i] * xs[i], Len(xs))
PopVar(xs) == Rat(Len(xs) * SeqSq(xs) - SeqSum(xs) * SeqSum(xs), Len(xs) * Len(xs))
PopVarCentred(xs) == RDiv(RSumTo(LAMBDA i : RSq(RSub(RInt(xs[i]), Rat(SeqSum(xs), Len(xs)))), Len(xs)), RInt(Len(xs)))
WelchCert(xs, ys) == <<RSub(Rat(SeqSum(xs), Len(xs)), Rat(SeqSum(ys), Len(ys))),
                       RAdd(RDiv(PopVar(xs), RInt(Len(xs))), RDiv(PopVar(ys), RInt(Len(ys))))>>

\* results do not depend on empty declared classes, on the order of the class list, or on undeclared observations
Finite(r) == IsFin(r)
=============================================================================
