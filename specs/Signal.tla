------------------------------- MODULE Signal -------------------------------
(* C19: signal helpers.  P: declarative definitions.  K: the peak elimination scan as the code writes it.       *)
(* Signals are sequences of small integers, positions are 0-based as in the code (sig[k + 1] is sample k).       *)
EXTENDS Num

NegInf == -1000
At(sig, k) == IF k >= 0 THEN sig[k + 1] ELSE sig[Len(sig) + k + 1]          \* Python indexing: -1 is the last sample

\* ---- find_peaks -------------------------------------------------------------------------------------------
IsCand(sig, k, h) == /\ (k = 0 \/ sig[k + 1] >= sig[k])
                     /\ (k = Len(sig) - 1 \/ sig[k + 1] >= sig[k + 2])
                     /\ sig[k + 1] >= h
Cands(sig, h) == SelectSeq([k \in 1..Len(sig) |-> k - 1], LAMBDA k : IsCand(sig, k, h))
\* P: the set of acceptable outputs
ValidPeaks(sig, d, h, out) ==
    /\ \A i \in 1..Len(out) : out[i] \in 0..(Len(sig) - 1) /\ IsCand(sig, out[i], h)
    /\ \A i \in 1..(Len(out) - 1) : out[i] < out[i + 1]                                  \* increasing, no duplicate
    /\ \A i, j \in 1..Len(out) : i # j => Abs(out[i] - out[j]) >= d
    /\ \A c \in 0..(Len(sig) - 1) : (IsCand(sig, c, h) /\ ~(\E i \in 1..Len(out) : out[i] = c)) =>
           \E o \in 0..(Len(sig) - 1) : o # c /\ IsCand(sig, o, h) /\ Abs(o - c) < d /\ sig[o + 1] >= sig[c + 1]
\* K, pinned upstream scan: eliminated entries are overwritten with -1 and READ AGAIN (as position -1 = last sample)
RECURSIVE InnerPinned(_, _, _, _, _)
InnerPinned(sig, d, m, i, p) ==
    IF p < Len(m) /\ Abs(m[i] - m[p + 1]) < d
    THEN LET q == p + 1
             m2 == IF At(sig, m[i]) < At(sig, m[q]) THEN [m EXCEPT ![i] = -1] ELSE [m EXCEPT ![q] = -1]
         IN InnerPinned(sig, d, m2, i, q)
    ELSE m
RECURSIVE OuterPinned(_, _, _, _)
OuterPinned(sig, d, m, i) == IF i > Len(m) THEN m ELSE OuterPinned(sig, d, InnerPinned(sig, d, m, i, i), i + 1)
ScanPinned(sig, d, h) == SelectSeq(OuterPinned(sig, d, Cands(sig, h), 1), LAMBDA k : k > -1)
\* K, repaired scan: a removed-mask; removed entries are skipped, the scan of i stops when i is removed
RECURSIVE InnerFixed(_, _, _, _, _, _)
InnerFixed(sig, d, m, rem, i, p) ==
    IF p < Len(m) /\ m[p + 1] - m[i] < d
    THEN LET q == p + 1 IN
         IF rem[q] THEN InnerFixed(sig, d, m, rem, i, q)
         ELSE IF sig[m[i] + 1] < sig[m[q] + 1] THEN [rem EXCEPT ![i] = TRUE]
         ELSE InnerFixed(sig, d, m, [rem EXCEPT ![q] = TRUE], i, q)
    ELSE rem
RECURSIVE OuterFixed(_, _, _, _, _)
OuterFixed(sig, d, m, rem, i) == IF i > Len(m) THEN rem
                                 ELSE IF rem[i] THEN OuterFixed(sig, d, m, rem, i + 1)
                                 ELSE OuterFixed(sig, d, m, InnerFixed(sig, d, m, rem, i, i), i + 1)
ScanFixed(sig, d, h) == LET m == Cands(sig, h)
                            rem == OuterFixed(sig, d, m, [k \in 1..Len(m) |-> FALSE], 1)
                            keep == SelectSeq([k \in 1..Len(m) |-> k], LAMBDA k : ~rem[k])
                        IN [j \in 1..Len(keep) |-> m[keep[j]]]

\* ---- find_width: maximal runs strictly beyond the threshold, bracketed on both sides, width within bounds ----
Beyond(sig, k, dir, thr) == IF dir = "pos" THEN sig[k + 1] > thr ELSE sig[k + 1] < thr
IsRun(sig, a, b, dir, thr) ==     \* samples a..b-1 (0-based), [a, b) maximal and bracketed
    /\ a >= 1 /\ b <= Len(sig) - 1 /\ a < b
    /\ \A k \in a..(b - 1) : Beyond(sig, k, dir, thr)
    /\ ~Beyond(sig, a - 1, dir, thr) /\ ~Beyond(sig, b, dir, thr)
Widths(sig, dir, thr, lo, hi) ==      \* lo <= length <= hi, as the sequence of <<first, after last>> in increasing order
    LET all == [j \in 1..(Len(sig) * Len(sig)) |-> <<(j - 1) \div Len(sig), ((j - 1) % Len(sig)) + 1>>]
    IN SelectSeq(all, LAMBDA ab : IsRun(sig, ab[1], ab[2], dir, thr) /\ ab[2] - ab[1] >= lo /\ ab[2] - ab[1] <= hi)

\* ---- windowed statistics of window [k, k + w) -----------------------------------------------------------------
Win(sig, k, w) == SubSeq(sig, k + 1, k + w)
PowSum(s, e) == SumTo(LAMBDA i : IF e = 1 THEN s[i] ELSE IF e = 2 THEN s[i] * s[i] ELSE IF e = 3 THEN s[i] * s[i] * s[i] ELSE s[i] * s[i] * s[i] * s[i], Len(s))
WMean(s) == Rat(PowSum(s, 1), Len(s))
\* P: central moments from their definition  mu_e = (1/w) sum (x - mean)^e
RPow(r, e) == IF e = 2 THEN RSq(r) ELSE IF e = 3 THEN RMul(RSq(r), r) ELSE RSq(RSq(r))
Central(s, e) == RDiv(RSumTo(LAMBDA i : RPow(RSub(RInt(s[i]), WMean(s)), e), Len(s)), RInt(Len(s)))
\* K: the raw-moment formulas of moving_var / moving_skew / moving_kurtosis (numerators)
Raw(s, e) == Rat(PowSum(s, e), Len(s))
VarK(s) == RSub(Raw(s, 2), RSq(Raw(s, 1)))
Mu3K(s) == RSub(RSub(Raw(s, 3), RMul(RMul(RInt(3), Raw(s, 1)), VarK(s))), RPow(Raw(s, 1), 3))
Mu4K(s) == RAdd(RAdd(RSub(Raw(s, 4), RMul(RMul(RInt(4), Raw(s, 3)), Raw(s, 1))), RMul(RMul(RInt(6), VarK(s)), RSq(Raw(s, 1)))), RMul(RInt(3), RPow(Raw(s, 1), 4)))
MomentsKMatchP(s) == VarK(s) = Central(s, 2) /\ Mu3K(s) = Central(s, 3) /\ Mu4K(s) = Central(s, 4)

\* ---- pattern scores of one window x against pattern y (same length) ---------------------------------------------
PairSeq(x, y) == [i \in 1..Len(x) |-> <<x[i], y[i]>>]
Dist2(x, y) == SumTo(LAMBDA i : (x[i] - y[i]) * (x[i] - y[i]), Len(x))
VarN2(s) == Len(s) * PowSum(s, 2) - PowSum(s, 1) * PowSum(s, 1)              \* n^2 * population variance
Bcdc2(x, y) == <<VarN2([i \in 1..Len(x) |-> x[i] - y[i]]), VarN2([i \in 1..Len(x) |-> x[i] + y[i]])>>   \* ratio num/den
=============================================================================
