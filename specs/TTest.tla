-------------------------------- MODULE TTest --------------------------------
(* C09, mechanism layer (K) of TTestAnalysis.run: the main thread and the two accumulator threads, one action per       *)
(* statement group, all interleavings.  Batches are symbolic: batch b of set i in run r is the token <<r, i, b>>; an      *)
(* accumulator is the sequence of tokens it has added (sums) and the number it has counted (processed_traces).           *)
(*   thread i : Reset (exception := None; _stop_loop := False - racing with main's stop()),                              *)
(*              Loop  (no batch left or stop requested -> Exit; else Fail (injected) or Add),                            *)
(*              Add (kernel adds the batch to sum / sum_squared), Count (processed_traces += k), Exit                    *)
(*   main     : Start(1), Start(2), Join(1) [re-raise], Compute(1), Join(2) [re-raise], Compute(2),                      *)
(*              finally: Stop(1), Stop(2), JoinBoth (exceptions swallowed), then Welch or propagate.                      *)
(* P (invariants / properties): the run terminates; it raises iff a thread failed; when it does not raise, the result is   *)
(* computed from ALL batches of both sets of all runs so far, whatever the interleaving; when it raises, the result is      *)
(* not refreshed; the two threads never write the same accumulator.                                                      *)
EXTENDS Integers, Sequences, TLC, Json
CONSTANTS NB,          \* <<batches of set 1, batches of set 2>> of the first run
          NB2,         \* the same for every later run (the trace sets of consecutive runs need not have the same size)
          Runs,        \* number of consecutive run() calls
          FailRun, FailThread, FailBatch,     \* injected failure (FailRun = 0: none)
          SharedBug,   \* sensitivity: "none" | "shared" (thread 2 adds into accumulator 1)
          Gen
VARIABLES pcm, pct, b, acc, cnt, stop, exc, alive, comp, result, raised, run, sched
vars == <<pcm, pct, b, acc, cnt, stop, exc, alive, comp, result, raised, run, sched>>
T == {1, 2}
NBr(r, i) == IF r = 1 THEN NB[i] ELSE NB2[i]
Init == /\ pcm = "start1" /\ pct = [i \in T |-> "idle"] /\ b = [i \in T |-> 1]
        /\ acc = [i \in T |-> <<>>] /\ cnt = [i \in T |-> 0]
        /\ stop = [i \in T |-> FALSE] /\ exc = [i \in T |-> FALSE] /\ alive = [i \in T |-> FALSE]
        /\ comp = [i \in T |-> <<>>] /\ result = <<>> /\ raised = FALSE /\ run = 1 /\ sched = <<>>
Log(e) == sched' = IF Gen THEN Append(sched, e) ELSE sched
\* ---- accumulator threads ---------------------------------------------------------------------------------------------
Reset(i) == /\ pct[i] = "reset" /\ exc' = [exc EXCEPT ![i] = FALSE] /\ stop' = [stop EXCEPT ![i] = FALSE]
            /\ pct' = [pct EXCEPT ![i] = "loop"] /\ UNCHANGED <<pcm, b, acc, cnt, alive, comp, result, raised, run, sched>>
Loop(i) == /\ pct[i] = "loop"
           /\ IF b[i] > NBr(run, i) \/ stop[i]
              THEN pct' = [pct EXCEPT ![i] = "exit"] /\ UNCHANGED <<exc, sched>>
              ELSE IF FailRun = run /\ FailThread = i /\ FailBatch = b[i]
                   THEN exc' = [exc EXCEPT ![i] = TRUE] /\ pct' = [pct EXCEPT ![i] = "exit"] /\ Log(<<"F", i>>)
                   ELSE pct' = [pct EXCEPT ![i] = "add"] /\ UNCHANGED exc /\ Log(<<"B", i>>)
           /\ UNCHANGED <<pcm, b, acc, cnt, stop, alive, comp, result, raised, run>>
Target(i) == IF SharedBug = "shared" THEN 1 ELSE i
Add(i) == /\ pct[i] = "add" /\ acc' = [acc EXCEPT ![Target(i)] = Append(@, <<run, i, b[i]>>)]
          /\ pct' = [pct EXCEPT ![i] = "count"] /\ UNCHANGED <<pcm, b, cnt, stop, exc, alive, comp, result, raised, run, sched>>
Count(i) == /\ pct[i] = "count" /\ cnt' = [cnt EXCEPT ![i] = @ + 1] /\ b' = [b EXCEPT ![i] = @ + 1]
            /\ pct' = [pct EXCEPT ![i] = "loop"] /\ UNCHANGED <<pcm, acc, stop, exc, alive, comp, result, raised, run, sched>>
Exit(i) == /\ pct[i] = "exit" /\ alive' = [alive EXCEPT ![i] = FALSE] /\ pct' = [pct EXCEPT ![i] = "idle"]
           /\ UNCHANGED <<pcm, b, acc, cnt, stop, exc, comp, result, raised, run, sched>>
\* ---- main thread -------------------------------------------------------------------------------------------------------
Start(i, nxt) == /\ pcm = (IF i = 1 THEN "start1" ELSE "start2") /\ ~alive[i]
                 /\ alive' = [alive EXCEPT ![i] = TRUE] /\ pct' = [pct EXCEPT ![i] = "reset"] /\ b' = [b EXCEPT ![i] = 1]
                 /\ pcm' = nxt /\ UNCHANGED <<acc, cnt, stop, exc, comp, result, raised, run, sched>>
Join(i, ok, ko) == /\ pcm = (IF i = 1 THEN "join1" ELSE "join2") /\ ~alive[i]
                   /\ pcm' = IF exc[i] THEN ko ELSE ok
                   /\ raised' = (raised \/ exc[i])
                   /\ UNCHANGED <<pct, b, acc, cnt, stop, exc, alive, comp, result, run, sched>>
Compute(i, nxt) == /\ pcm = (IF i = 1 THEN "compute1" ELSE "compute2")
                   /\ comp' = [comp EXCEPT ![i] = <<acc[i], cnt[i]>>] /\ pcm' = nxt
                   /\ UNCHANGED <<pct, b, acc, cnt, stop, exc, alive, result, raised, run, sched>>
StopBoth == /\ pcm = "finally" /\ stop' = [i \in T |-> TRUE] /\ pcm' = "joinboth"
            /\ UNCHANGED <<pct, b, acc, cnt, exc, alive, comp, result, raised, run, sched>>
JoinBoth == /\ pcm = "joinboth" /\ ~alive[1] /\ ~alive[2] /\ pcm' = "welch"
            /\ UNCHANGED <<pct, b, acc, cnt, stop, exc, alive, comp, result, raised, run, sched>>
Welch == /\ pcm = "welch"
         /\ result' = IF raised THEN result ELSE <<comp[1], comp[2]>>
         /\ pcm' = IF run < Runs THEN "start1" ELSE "done"
         /\ run' = IF run < Runs THEN run + 1 ELSE run
         /\ raised' = (IF run < Runs THEN FALSE ELSE raised)
         /\ UNCHANGED <<pct, b, acc, cnt, stop, exc, alive, comp, sched>>
Main == Start(1, "start2") \/ Start(2, "join1") \/ Join(1, "compute1", "finally") \/ Compute(1, "join2")
        \/ Join(2, "compute2", "finally") \/ Compute(2, "finally") \/ StopBoth \/ JoinBoth \/ Welch
Thread(i) == Reset(i) \/ Loop(i) \/ Add(i) \/ Count(i) \/ Exit(i)
Next == Main \/ \E i \in T : Thread(i)
Spec == Init /\ [][Next]_vars /\ WF_vars(Main) /\ \A i \in T : WF_vars(Thread(i))

\* ---- P ----------------------------------------------------------------------------------------------------------------------
AllBatches(i, upto) == LET f[r \in 0..upto] == IF r = 0 THEN <<>> ELSE f[r - 1] \o [k \in 1..NBr(r, i) |-> <<r, i, k>>] IN f[upto]
Failed(r) == FailRun = r
\* at the end: a result was produced by the last run that did not fail, from all batches of all runs up to it
Terminates == <>(pcm = "done")
ResultIsWelchOfEverything ==
    (pcm = "done" /\ FailRun = 0) => result = << <<AllBatches(1, Runs), NB[1] + (Runs - 1) * NB2[1]>>, <<AllBatches(2, Runs), NB[2] + (Runs - 1) * NB2[2]>> >>
RaisesIffFailed == pcm = "done" => (raised <=> Failed(Runs))
\* a run that raises does not refresh the result: it still is the result of the previous run (or none)
NotRefreshedOnFailure == [][(pcm = "welch" /\ raised) => result' = result]_vars
\* while the main thread computes from an accumulator, its thread is not running (no torn read)
NoTornRead == pcm \in {"compute1"} => ~alive[1]
NoTornRead2 == pcm \in {"compute2"} => ~alive[2]
\* the counted traces are the added traces whenever a thread is between batches
CountMatchesSum == \A i \in T : (pct[i] \in {"loop", "idle", "exit"} /\ SharedBug = "none") => Len(acc[i]) = cnt[i]
OwnAccumulatorOnly == \A i \in T : \A k \in 1..Len(acc[i]) : acc[i][k][2] = i
Emit == (Gen /\ pcm = "done") => PrintT(<<"EMIT", ToJson([sched |-> sched, raised |-> raised])>>)
=============================================================================
