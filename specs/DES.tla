--------------------------------- MODULE DES ---------------------------------
(* C06 / C10 / C07, property layer: DES and TDES (EDE) from FIPS 46-3.  Blocks and keys are sequences of bits (1-based,  *)
(* bit 1 = most significant bit of the first byte).  IP and E are given by their generating formulas, FP is the inverse  *)
(* of IP, P / PC-1 / PC-2 / shifts and the eight S-boxes are the published tables (S-boxes in row/column form).          *)
EXTENDS Integers, Sequences, TLC

\* ---- bits <-> words --------------------------------------------------------------------------------------------------
BitsOf(v, n) == [i \in 1..n |-> (v \div (2 ^ (n - i))) % 2]                          \* n-bit big-endian
RECURSIVE ValAcc(_, _, _)
ValAcc(b, i, acc) == IF i > Len(b) THEN acc ELSE ValAcc(b, i + 1, 2 * acc + b[i])
Val(b) == ValAcc(b, 1, 0)
Bits(bytes) == [i \in 1..(8 * Len(bytes)) |-> (bytes[(i - 1) \div 8 + 1] \div (2 ^ (7 - ((i - 1) % 8)))) % 2]
Words(b, w) == [k \in 1..(Len(b) \div w) |-> Val(SubSeq(b, (k - 1) * w + 1, k * w))]  \* cut into w-bit words
Bytes(b) == Words(b, 8)
XorB(a, b) == [i \in 1..Len(a) |-> (a[i] + b[i]) % 2]
Perm(tbl, b) == [i \in 1..Len(tbl) |-> b[tbl[i]]]

\* ---- tables ------------------------------------------------------------------------------------------------------------
IPt == [i \in 1..64 |-> LET r == (i - 1) \div 8  c == (i - 1) % 8 IN (IF r < 4 THEN 58 + 2 * r ELSE 57 + 2 * (r - 4)) - 8 * c]
FPt == [j \in 1..64 |-> CHOOSE i \in 1..64 : IPt[i] = j]                              \* FP = IP^-1
Et == [i \in 1..48 |-> LET j == (i - 1) \div 6  k == (i - 1) % 6 IN ((4 * j + k - 1 + 32) % 32) + 1]
Pt == <<16, 7, 20, 21, 29, 12, 28, 17, 1, 15, 23, 26, 5, 18, 31, 10, 2, 8, 24, 14, 32, 27, 3, 9, 19, 13, 30, 6, 22, 11, 4, 25>>
PInvt == [j \in 1..32 |-> CHOOSE i \in 1..32 : Pt[i] = j]
PC1t == <<57, 49, 41, 33, 25, 17, 9, 1, 58, 50, 42, 34, 26, 18, 10, 2, 59, 51, 43, 35, 27, 19, 11, 3, 60, 52, 44, 36,
          63, 55, 47, 39, 31, 23, 15, 7, 62, 54, 46, 38, 30, 22, 14, 6, 61, 53, 45, 37, 29, 21, 13, 5, 28, 20, 12, 4>>
PC2t == <<14, 17, 11, 24, 1, 5, 3, 28, 15, 6, 21, 10, 23, 19, 12, 4, 26, 8, 16, 7, 27, 20, 13, 2,
          41, 52, 31, 37, 47, 55, 30, 40, 51, 45, 33, 48, 44, 49, 39, 56, 34, 53, 46, 42, 50, 36, 29, 32>>
Shifts == <<1, 1, 2, 2, 2, 2, 2, 2, 1, 2, 2, 2, 2, 2, 2, 1>>
SB == <<
 <<<<14, 4, 13, 1, 2, 15, 11, 8, 3, 10, 6, 12, 5, 9, 0, 7>>, <<0, 15, 7, 4, 14, 2, 13, 1, 10, 6, 12, 11, 9, 5, 3, 8>>, <<4, 1, 14, 8, 13, 6, 2, 11, 15, 12, 9, 7, 3, 10, 5, 0>>, <<15, 12, 8, 2, 4, 9, 1, 7, 5, 11, 3, 14, 10, 0, 6, 13>>>>,
 <<<<15, 1, 8, 14, 6, 11, 3, 4, 9, 7, 2, 13, 12, 0, 5, 10>>, <<3, 13, 4, 7, 15, 2, 8, 14, 12, 0, 1, 10, 6, 9, 11, 5>>, <<0, 14, 7, 11, 10, 4, 13, 1, 5, 8, 12, 6, 9, 3, 2, 15>>, <<13, 8, 10, 1, 3, 15, 4, 2, 11, 6, 7, 12, 0, 5, 14, 9>>>>,
 <<<<10, 0, 9, 14, 6, 3, 15, 5, 1, 13, 12, 7, 11, 4, 2, 8>>, <<13, 7, 0, 9, 3, 4, 6, 10, 2, 8, 5, 14, 12, 11, 15, 1>>, <<13, 6, 4, 9, 8, 15, 3, 0, 11, 1, 2, 12, 5, 10, 14, 7>>, <<1, 10, 13, 0, 6, 9, 8, 7, 4, 15, 14, 3, 11, 5, 2, 12>>>>,
 <<<<7, 13, 14, 3, 0, 6, 9, 10, 1, 2, 8, 5, 11, 12, 4, 15>>, <<13, 8, 11, 5, 6, 15, 0, 3, 4, 7, 2, 12, 1, 10, 14, 9>>, <<10, 6, 9, 0, 12, 11, 7, 13, 15, 1, 3, 14, 5, 2, 8, 4>>, <<3, 15, 0, 6, 10, 1, 13, 8, 9, 4, 5, 11, 12, 7, 2, 14>>>>,
 <<<<2, 12, 4, 1, 7, 10, 11, 6, 8, 5, 3, 15, 13, 0, 14, 9>>, <<14, 11, 2, 12, 4, 7, 13, 1, 5, 0, 15, 10, 3, 9, 8, 6>>, <<4, 2, 1, 11, 10, 13, 7, 8, 15, 9, 12, 5, 6, 3, 0, 14>>, <<11, 8, 12, 7, 1, 14, 2, 13, 6, 15, 0, 9, 10, 4, 5, 3>>>>,
 <<<<12, 1, 10, 15, 9, 2, 6, 8, 0, 13, 3, 4, 14, 7, 5, 11>>, <<10, 15, 4, 2, 7, 12, 9, 5, 6, 1, 13, 14, 0, 11, 3, 8>>, <<9, 14, 15, 5, 2, 8, 12, 3, 7, 0, 4, 10, 1, 13, 11, 6>>, <<4, 3, 2, 12, 9, 5, 15, 10, 11, 14, 1, 7, 6, 0, 8, 13>>>>,
 <<<<4, 11, 2, 14, 15, 0, 8, 13, 3, 12, 9, 7, 5, 10, 6, 1>>, <<13, 0, 11, 7, 4, 9, 1, 10, 14, 3, 5, 12, 2, 15, 8, 6>>, <<1, 4, 11, 13, 12, 3, 7, 14, 10, 15, 6, 8, 0, 5, 9, 2>>, <<6, 11, 13, 8, 1, 4, 10, 7, 9, 5, 0, 15, 14, 2, 3, 12>>>>,
 <<<<13, 2, 8, 4, 6, 15, 11, 1, 10, 9, 3, 14, 5, 0, 12, 7>>, <<1, 15, 13, 8, 10, 3, 7, 4, 12, 5, 6, 11, 0, 14, 9, 2>>, <<7, 11, 4, 1, 9, 12, 14, 2, 0, 6, 10, 13, 15, 3, 5, 8>>, <<2, 1, 14, 7, 4, 10, 8, 13, 15, 12, 9, 0, 3, 5, 6, 11>>>>
>>
\* S-box i on a 6-bit word w = b1..b6: row = 2 b1 + b6, column = b2 b3 b4 b5
SBoxWord(i, w) == LET b == BitsOf(w, 6) IN SB[i][2 * b[1] + b[6] + 1][8 * b[2] + 4 * b[3] + 2 * b[4] + b[5] + 1]

\* ---- primitives on bits ------------------------------------------------------------------------------------------------
IP(b) == Perm(IPt, b)
FP(b) == Perm(FPt, b)
E(r) == Perm(Et, r)                                                                   \* 32 -> 48
P(x) == Perm(Pt, x)
PInv(x) == Perm(PInvt, x)
SBoxes48(x) == LET ws == Words(x, 6)  out == [i \in 1..8 |-> SBoxWord(i, ws[i])]
               IN [k \in 1..32 |-> BitsOf(out[(k - 1) \div 4 + 1], 4)[((k - 1) % 4) + 1]]
F(r, k) == P(SBoxes48(XorB(E(r), k)))                                                 \* k: 48-bit round key

\* ---- key schedule: PC-1, cumulative left shifts, PC-2 -------------------------------------------------------------------
RotL(b, n) == [i \in 1..Len(b) |-> b[((i - 1 + n) % Len(b)) + 1]]
CumShift(r) == LET f[i \in 0..r] == IF i = 0 THEN 0 ELSE f[i - 1] + Shifts[i] IN f[r]        \* after round r (1-based)
RoundKey(key64, r) == LET cd == Perm(PC1t, key64)  c == RotL(SubSeq(cd, 1, 28), CumShift(r))  d == RotL(SubSeq(cd, 29, 56), CumShift(r))
                      IN Perm(PC2t, c \o d)                                           \* r = 1..16, 48 bits
KeySchedule(key64) == [r \in 1..16 |-> RoundKey(key64, r)]
\* keys that differ only in parity bits (bit 8 of every byte) are the same key
SameUpToParity(a, b) == \A i \in 1..64 : (i % 8 # 0) => a[i] = b[i]

\* ---- the ten documented views of one round -------------------------------------------------------------------------------
\* (L, R) enter the round, k is the 48-bit round key, last = this is round 16 of the pass the caller stops in
Views(L, R, k, last) ==
   LET er == E(R)  ek == XorB(er, k)  s == SBoxes48(ek)  p == P(s)
       r2 == XorB(L, p)                                                               \* new right half R' = L xor f ; new left L' = R
       zero == [i \in 1..32 |-> 0]
   IN <<Bytes(L \o R),                  \* 0: [L | R]
        Words(er, 6),                   \* 1: E(R) as 8 words of 6 bits
        Words(ek, 6),                   \* 2: E(R) xor K
        Words(s, 4),                    \* 3: S-box outputs as 8 words of 4 bits
        Bytes(p \o zero),               \* 4: [P(.) | 0]
        Bytes(r2 \o R),                 \* 5: [R' | L']
        Bytes(R \o r2),                 \* 6: [L' | R']
        Words(PInv(r2), 4),             \* 7: P^-1(R')
        Words(PInv(XorB(r2, R)), 4),    \* 8: P^-1(R' xor R)
        IF last THEN Bytes(FP(r2 \o R)) ELSE Bytes(R \o r2)>>                         \* 9: final permutation of [R16 | L16], else as 6
=============================================================================
