--------------------------- MODULE PreprocessCases ---------------------------
(* Expected outputs for driver-proposed cases.  kind:                                                             *)
(*  "comb"   [cfg, rows]                     -> one output row per input row (dyadics)                             *)
(*  "power"  [k, rows]; "center" / "standardize" [rows] (rationals / variance certificates); "bits" [rows]          *)
(*  "tf"     [name, a, b] integer rows for the time-frequency combinations (lengths 1, 2, 4; Xcorr any length)      *)
EXTENDS Preprocess
Cases == JsonDeserialize(IOEnv.CASES)
VARIABLE case
Init == case \in 1..Len(Cases)
Next == UNCHANGED case
Spec == Init /\ [][Next]_case
C == Cases[case]
\* (M) documented pair lists: no duplicate, documented length
PairListLemma == C.kind = "comb" => NoDup(PairList(C.cfg)) /\ Len(PairList(C.cfg)) = PairCount(C.cfg)
XcorrLemma == (C.kind = "tf" /\ C.name = "xcorr") => XcorrDC(C.a, C.b)
FHT(x) == [k \in 1..Len(RFFT(x)) |-> RFFT(x)[k][1] - RFFT(x)[k][2]]
Res == CASE C.kind = "comb" -> [rows |-> [r \in 1..Len(C.rows) |-> CombRow(C.cfg, C.rows[r])]]
         [] C.kind = "power" -> [rows |-> [r \in 1..Len(C.rows) |-> PowRow(C.rows[r], C.k)]]
         [] C.kind = "center" -> [rows |-> [r \in 1..Len(C.rows) |-> CenterRow(C.rows, r)], varn2 |-> [c \in 1..Len(C.rows[1]) |-> ColVarN2(C.rows, c)]]
         [] C.kind = "bits" -> [rows |-> [r \in 1..Len(C.rows) |-> SerializeRow(C.rows[r])]]
         [] C.kind = "tf" ->
              CASE C.name = "xcorr" -> [row |-> XcorrRow(C.a, C.b)]
                [] C.name = "windowfft" -> [mod2 |-> [k \in 1..Len(RFFT(C.a)) |-> Mod2(CMul(CConj(RFFT(C.a)[k]), RFFT(C.b)[k]))]]
                [] C.name = "windowfht" -> [row |-> [k \in 1..Len(RFFT(C.a)) |-> FHT(C.a)[k] * FHT(C.b)[k]]]
                [] C.name = "maxcorr" -> [re |-> [k \in 1..Len(RFFT(C.a \o C.b)) |-> RFFT(C.a \o C.b)[k][1]], im |-> [k \in 1..Len(RFFT(C.a \o C.b)) |-> RFFT(C.a \o C.b)[k][2]],
                                          mod2 |-> [k \in 1..Len(RFFT(C.a \o C.b)) |-> Mod2(RFFT(C.a \o C.b)[k])]]
                [] C.name = "concatfft" -> [row |-> [k \in 1..Len(RFFT(C.a \o C.b)) |-> Mod2(RFFT(C.a \o C.b)[k])]]
                [] C.name = "concatfht" -> [row |-> [k \in 1..Len(RFFT(C.a \o C.b)) |-> FHT(C.a \o C.b)[k] * FHT(C.a \o C.b)[k]]]
                [] C.name = "fftmodulus" -> [mod2 |-> [k \in 1..((Len(C.a) + 1) \div 2) |-> Mod2(DFT(C.a, k - 1))]]
Emit == PrintT(<<"EMIT", ToJson([case |-> case, res |-> Res])>>)
=============================================================================
