------------------------------- MODULE ClassId -------------------------------
(* C12 lemmas on driver-proposed cases [c, rows, perm, extra]: classes are identified by value.              *)
(*  - listing the classes in another order (perm) permutes the per-class state and nothing else;            *)
(*  - declaring extra unused values adds empty classes and nothing else;                                     *)
(*  - rows whose words are all undeclared contribute nothing.                                               *)
EXTENDS DistOps, Json, IOUtils
Cases == JsonDeserialize(IOEnv.CASES)
VARIABLE case
Init == case \in 1..Len(Cases)
Next == UNCHANGED case
Spec == Init /\ [][Next]_case
C == Cases[case].c
Rows == Cases[case].rows
Perm == Cases[case].perm             \* new position k holds old class Perm[k]
Extra == Cases[case].extra
CP == [C EXCEPT !.classes = [k \in 1..Len(C.classes) |-> C.classes[Perm[k]]]]
CX == [C EXCEPT !.classes = C.classes \o Extra]
A == Contribution(C, Rows)
AP == Contribution(CP, Rows)
AX == Contribution(CX, Rows)
NCl == Len(C.classes)

PermutesState ==
  CASE C.kind = "part" -> \A w \in 1..C.W, s \in 1..C.S, k \in 1..NCl : PartCell(CP, AP, w, s, k) = PartCell(C, A, w, s, Perm[k])
    [] C.kind = "mia" -> \A j \in 1..(C.S * C.nb), w \in 1..C.W, k \in 1..NCl :
                            AP.hist[((j - 1) * NCl + (k - 1)) * C.W + w] = A.hist[((j - 1) * NCl + (Perm[k] - 1)) * C.W + w]
    [] C.kind = "tplb" -> \A k \in 1..NCl : AP.cnt[k] = A.cnt[Perm[k]] /\ \A s \in 1..C.S : AP.exi[(k - 1) * C.S + s] = A.exi[(Perm[k] - 1) * C.S + s]
    [] C.kind = "tplm" -> TRUE
    [] C.kind = "tpld" -> TRUE
ExtraClassesStayEmpty ==
  CASE C.kind = "part" -> \A w \in 1..C.W, s \in 1..C.S, k \in 1..Len(CX.classes) :
                             PartCell(CX, AX, w, s, k) = IF k <= NCl THEN PartCell(C, A, w, s, k) ELSE <<0, 0, 0>>
    [] OTHER -> TRUE
AllUndeclared(r) == \A w \in 1..C.W : ~Declared(C, r.d[w])
UndeclaredRowsHaveNoEffect == C.kind \in {"part", "mia", "tplb"} => Contribution(C, SelectSeq(Rows, LAMBDA r : ~AllUndeclared(r))) = A
=============================================================================
