\* exhaustive history exploration, no history variable (canonical configuration; the checks generate the
\* same text with tier-dependent bounds)
SPECIFICATION Spec
CONSTANTS MaxBatches = 4
          MaxComputes = 2
          MaxRejects = 0
          RecordHist = FALSE
INVARIANT StateIsFunctionOfPrefix
INVARIANT CountMatches
INVARIANT InitedIffFed
PROPERTY ComputePure
PROPERTY RejectPure
CHECK_DEADLOCK FALSE
