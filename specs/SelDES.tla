------------------------------- MODULE SelDES -------------------------------
(* C07 (DES): the ready-made attack selection functions, per 6-bit key word w (S-box w), guess g in 0..63.                *)
(* The functions encrypt their input one round with a key made of the guess: with (L, R) = IP(input),                      *)
(*   AddRoundKey : E(R)[w] xor g            Sboxes : S_w(E(R)[w] xor g)                                                      *)
(*   FeistelR    : P^-1(L)[w] xor S_w(..)   DeltaR : P^-1(L xor R)[w] xor S_w(..)        (P^-1 o P = id, nibble-wise)          *)
(* "First" functions take the plaintext, "Last" functions the ciphertext (IP(ct) = [R16 | L16]).                             *)
EXTENDS DES
SelFns == <<"FirstAddRoundKey", "FirstSboxes", "FeistelRFirstRounds", "DeltaRFirstRounds",
            "LastAddRoundKey", "LastSboxes", "FeistelRLastRounds", "DeltaRLastRounds">>
UsesCiphertext(fn) == fn \in {"LastAddRoundKey", "LastSboxes", "FeistelRLastRounds", "DeltaRLastRounds"}
Kind(fn) == CASE fn \in {"FirstAddRoundKey", "LastAddRoundKey"} -> "ark" [] fn \in {"FirstSboxes", "LastSboxes"} -> "sbox"
              [] fn \in {"FeistelRFirstRounds", "FeistelRLastRounds"} -> "feistel" [] OTHER -> "delta"
XorInt(a, b, n) == Val(XorB(BitsOf(a, n), BitsOf(b, n)))
\* what the four computations need from an input block, computed once per block
Pre(in8) == LET b == IP(Bits(in8))  L == SubSeq(b, 1, 32)  R == SubSeq(b, 33, 64)
            IN [er |-> Words(E(R), 6), pl |-> Words(PInv(L), 4), plr |-> Words(PInv(XorB(L, R)), 4)]
HypPre(fn, pre, g, w) == LET x == XorInt(pre.er[w], g, 6)
                         IN CASE Kind(fn) = "ark" -> x
                              [] Kind(fn) = "sbox" -> SBoxWord(w, x)
                              [] Kind(fn) = "feistel" -> XorInt(pre.pl[w], SBoxWord(w, x), 4)
                              [] OTHER -> XorInt(pre.plr[w], SBoxWord(w, x), 4)
Hyp(fn, in8, g, w) == HypPre(fn, Pre(in8), g, w)
\* trail[16 (pass - 1) + round][view + 1] with 1-based round: the ten views of every round of an ENCRYPTION
\* Target: First* = views 2, 3, 7, 8 of round 1; Last* = views 2, 3 of round 16, view 7 of round 14 (P^-1(R14)), view 8 of round 15 (P^-1(R15 xor R14))
Target(fn, trail, w) == CASE fn = "FirstAddRoundKey" -> trail[1][3][w] [] fn = "FirstSboxes" -> trail[1][4][w]
                          [] fn = "FeistelRFirstRounds" -> trail[1][8][w] [] fn = "DeltaRFirstRounds" -> trail[1][9][w]
                          [] fn = "LastAddRoundKey" -> trail[16][3][w] [] fn = "LastSboxes" -> trail[16][4][w]
                          [] fn = "FeistelRLastRounds" -> trail[14][8][w] [] fn = "DeltaRLastRounds" -> trail[15][9][w]
ExpectedKeyRound(fn) == IF UsesCiphertext(fn) THEN 16 ELSE 1
=============================================================================
