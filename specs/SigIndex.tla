------------------------------ MODULE SigIndex ------------------------------
(* C19: the two index maps of the signal helpers, on driver-proposed cases (JSON).                                *)
(*   extract_around_indexes(data, indexes, before, after): row r is data[indexes[r] - before .. indexes[r] + after], *)
(*     positions read with Python indexing (a negative position counts from the end, as everywhere in the library);  *)
(*     a position outside -L .. L-1 has no sample (the call is refused).  Indexes are mathematical integers: the     *)
(*     result depends on their values only, not on the integer type that carries them.                               *)
(*   pad(array, target_shape, offsets, pad_with): the array placed at the offsets inside an array of the target      *)
(*     shape, every other position holding pad_with.                                                                *)
EXTENDS Signal, Models, Json, IOUtils
Cases == JsonDeserialize(IOEnv.CASES)
VARIABLE x
Init == x \in 1..Len(Cases)
Next == UNCHANGED x
Spec == Init /\ [][Next]_x

C == Cases[x]
\* ---- extract
Width == C.before + C.after + 1
PosOf(r, j) == C.idxs[r] - C.before + j - 1
Defined == \A r \in 1..Len(C.idxs) : \A j \in 1..Width : PosOf(r, j) >= -Len(C.data) /\ PosOf(r, j) <= Len(C.data) - 1
Stack == [r \in 1..Len(C.idxs) |-> [j \in 1..Width |-> At(C.data, PosOf(r, j))]]
ColSum == [j \in 1..Width |-> SumTo(LAMBDA r : Stack[r][j], Len(C.idxs))]
\* (M) the centre column is the indexed sample itself, and consecutive columns are consecutive positions
CentreIsIndexed == (C.kind = "extract" /\ Defined) => \A r \in 1..Len(C.idxs) : Stack[r][C.before + 1] = At(C.data, C.idxs[r])
\* ---- pad
Src(i) == LET idx == Unflat(i - 1, C.target) IN [a \in 1..Len(C.target) |-> idx[a] - C.offsets[a]]
Inside(s) == \A a \in 1..Len(C.shape) : s[a] >= 0 /\ s[a] < C.shape[a]
Padded == [i \in 1..Prod(C.target) |-> IF Inside(Src(i)) THEN C.flat[Flat(Src(i), C.shape) + 1] ELSE C.pw]
Fits == \A a \in 1..Len(C.shape) : C.offsets[a] >= 0 /\ C.offsets[a] + C.shape[a] <= C.target[a]
\* (M) when the array fits, every element of it appears exactly once: as many inside positions as elements
PadKeepsEverything == (C.kind = "pad" /\ Fits) => Cardinality({i \in 1..Prod(C.target) : Inside(Src(i))}) = Prod(C.shape)

Emit == PrintT(<<"EMIT", ToJson([case |-> x, res |->
          IF C.kind = "extract" THEN (IF Defined THEN [ok |-> TRUE, stack |-> Stack, colsum |-> ColSum] ELSE [ok |-> FALSE])
          ELSE [fits |-> Fits, out |-> Padded]])>>)
=============================================================================
