------------------------------- MODULE SelAES -------------------------------
(* C07 (AES): the ready-made attack selection functions.                                                            *)
(* Hyp(fn, in, g, w): the local computation for input block `in`, key guess g and word w (1-based byte index).           *)
(* ExpectedKeyRound(fn): which round key the guessed word belongs to (first = 0, last = Nr).                             *)
(* Target(fn, trail, in, w): the word of the REAL cipher run that the key word acts on, read off the encryption trail      *)
(* (trail[p] = state after p operations of the flattened list; position 4 * round + step + 1).                           *)
(* Lemma (checked on every behaviour): Hyp(fn, in, ExpectedKey[w], w) = Target(fn, ...).                                  *)
EXTENDS AES
SelFns == <<"FirstAddRoundKey", "FirstSubBytes", "LastAddRoundKey", "LastSubBytes", "DeltaRLastRounds">>
\* ShiftRows(s)[w] = s[SRsrc(w)]
SRsrc(w) == LET r == (w - 1) % 4  c == (w - 1) \div 4 IN r + 4 * ((c + r) % 4) + 1
UsesCiphertext(fn) == fn \in {"LastAddRoundKey", "LastSubBytes", "DeltaRLastRounds"}
Hyp(fn, in, g, w) == CASE fn = "FirstAddRoundKey" -> in[w] ^^ g
                       [] fn = "FirstSubBytes" -> SBoxT[in[w] ^^ g]
                       [] fn = "LastAddRoundKey" -> in[w] ^^ g
                       [] fn = "LastSubBytes" -> InvSBoxT[in[w] ^^ g]
                       [] fn = "DeltaRLastRounds" -> in[SRsrc(w)] ^^ InvSBoxT[in[w] ^^ g]
ExpectedKeyRound(fn, nr) == IF UsesCiphertext(fn) THEN nr ELSE 0
\* trail: sequence of states after each of the 4 (Nr + 1) operations of an encryption; pt the plaintext; ct = last state
Target(fn, trail, pt, nr, w) ==
   LET ct == trail[4 * (nr + 1)]
       afterFirstArk == trail[4]                       \* round 0, step 3
       afterFirstSb == trail[5]                        \* round 1, step 0
       beforeLastArk == trail[4 * nr + 3]              \* last round, step 2 (after ShiftRows)
       beforeLastSb == trail[4 * nr]                   \* state leaving round Nr - 1
   IN CASE fn = "FirstAddRoundKey" -> afterFirstArk[w]
        [] fn = "FirstSubBytes" -> afterFirstSb[w]
        [] fn = "LastAddRoundKey" -> beforeLastArk[w]
        [] fn = "LastSubBytes" -> beforeLastSb[SRsrc(w)]                    \* the S-box input whose output lands on byte w of the ciphertext
        [] fn = "DeltaRLastRounds" -> ct[SRsrc(w)] ^^ beforeLastSb[SRsrc(w)]
=============================================================================
