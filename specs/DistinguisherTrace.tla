------------------------- MODULE DistinguisherTrace -------------------------
(* Trace validation (code -> spec) for every incremental distinguisher: each recorded execution of the *)
(* real object is a sequence of events logged at the return of the public call (also on the error      *)
(* path): the arguments (batch rows) and the projected state after the call.  An execution is accepted *)
(* iff every event is a step the specification allows FROM THE STATE THE SPEC IS IN:                   *)
(*   update  : acc' = acc + Contribution(rows),  n' = n + #rows        (and the log must say the same) *)
(*   compute : enabled iff n > 0, changes nothing                                                      *)
(*   reject  : changes nothing                                                                         *)
(* Thousands of traces are validated per TLC run: tid ranges over the file.                            *)
EXTENDS DistOps, Json, IOUtils

Traces == JsonDeserialize(IOEnv.TRACES)     \* sequence of [c |-> config, ev |-> events]
Diag == "DIAG" \in DOMAIN IOEnv /\ IOEnv.DIAG = "1"

VARIABLES tid, l, n, inited, acc
vars == <<tid, l, n, inited, acc>>

Cfg == Traces[tid].c
Ev == Traces[tid].ev[l]

Init == /\ tid \in 1..Len(Traces) /\ l = 1 /\ n = 0 /\ inited = FALSE
        /\ acc = Zero(Traces[tid].c)

Logged == /\ acc' = Ev.acc /\ n' = Ev.n /\ inited' = Ev.inited

TUpdate == /\ Ev.op = "update"
           /\ acc' = Plus(acc, Contribution(Cfg, Ev.rows))
           /\ n' = n + Len(Ev.rows) /\ inited' = TRUE
           /\ Logged
TCompute == /\ Ev.op = "compute" /\ n > 0
            /\ UNCHANGED <<acc, n, inited>> /\ Logged
TComputeRefused == /\ Ev.op = "compute_refused" /\ n = 0
                   /\ UNCHANGED <<acc, n, inited>> /\ Logged
TReject == /\ Ev.op = "reject"
           /\ UNCHANGED <<acc, n, inited>> /\ Logged

Next == /\ l <= Len(Traces[tid].ev) /\ l' = l + 1 /\ tid' = tid
        /\ (TUpdate \/ TCompute \/ TComputeRefused \/ TReject)

Spec == Init /\ [][Next]_vars

Accept == (l = Len(Traces[tid].ev) + 1) => PrintT(<<"ACCEPT", tid>>)
Progress == Diag => PrintT(<<"AT", tid, l>>)
=============================================================================
