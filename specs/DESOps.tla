------------------------------- MODULE DESOps -------------------------------
(* DES primitives on test vectors: every S-box on every 6-bit input (in the order of the 6-bit word, as the code indexes  *)
(* its tables); IP / FP / E / P / P^-1 on every single-bit vector, the all-ones vector and driver-proposed vectors.        *)
EXTENDS DES, Json, IOUtils
Vectors == JsonDeserialize(IOEnv.CASES)         \* [v64 |-> sequences of 8 bytes, v32 |-> sequences of 4 bytes]
VARIABLE k
Init == k \in 1..3
Next == UNCHANGED k
Spec == Init /\ [][Next]_k
Unit(n, i) == [j \in 1..n |-> IF j = i THEN 1 ELSE 0]
V64 == [i \in 1..64 |-> Unit(64, i)] \o <<[j \in 1..64 |-> 1]>> \o [i \in 1..Len(Vectors.v64) |-> Bits(Vectors.v64[i])]
V32 == [i \in 1..32 |-> Unit(32, i)] \o <<[j \in 1..32 |-> 1]>> \o [i \in 1..Len(Vectors.v32) |-> Bits(Vectors.v32[i])]
\* a bit permutation of a correct table is GF(2)-linear and moves single bits to single bits (model sanity)
SingleBitsStaySingle == \A i \in 1..64 : LET o == IP(Unit(64, i)) IN \E j \in 1..64 : o = Unit(64, j)
Emit == PrintT(<<"EMIT", ToJson(
   CASE k = 1 -> [what |-> "sboxes", out |-> [i \in 1..8 |-> [w \in 1..64 |-> SBoxWord(i, w - 1)]]]
     [] k = 2 -> [what |-> "p64", inp |-> [i \in 1..Len(V64) |-> Bytes(V64[i])], ip |-> [i \in 1..Len(V64) |-> Bytes(IP(V64[i]))],
                  fp |-> [i \in 1..Len(V64) |-> Bytes(FP(V64[i]))]]
     [] k = 3 -> [what |-> "p32", inp |-> [i \in 1..Len(V32) |-> Bytes(V32[i])], e |-> [i \in 1..Len(V32) |-> Words(E(V32[i]), 6)],
                  pinv |-> [i \in 1..Len(V32) |-> Words(PInv(V32[i]), 4)], nib |-> [i \in 1..Len(V32) |-> Words(V32[i], 4)], p |-> [i \in 1..Len(V32) |-> Bytes(P(V32[i]))]])>>)
=============================================================================
