------------------------------ MODULE MiaEdges ------------------------------
(* Every integer edge list of length 1..MaxLen over 0..MaxVal: states = lists.  (M) the setter's acceptance *)
(* rule (K) must coincide with "increasing and equally spaced" (P); the pinned upstream rule is refuted.     *)
EXTENDS Mia
CONSTANTS MaxLen, MaxVal, Variant, Gen
VARIABLE e
Init == e = <<>>
Next == Len(e) < MaxLen /\ \E x \in 0..MaxVal : e' = Append(e, x)
Spec == Init /\ [][Next]_e
AcceptK(x) == IF Variant = "pinned" THEN AcceptPinned(x) ELSE AcceptFixed(x)
RuleIsTheProperty == Len(e) >= 1 => (AcceptK(e) <=> ValidEdges(e))
FormulationsAgree == Len(e) >= 1 => (ValidEdges(e) <=> ValidEdges2(e))
\* uniform integer edges: the kernel's arithmetic bin is the bin by comparison, for every in-range integer sample
ArithBinIsEdgeBin == (Len(e) >= 2 /\ ValidEdges(e)) => \A x \in e[1]..e[Len(e)] : BinArith(x, e) = BinByEdges(x, e)
Emit == (Gen /\ Len(e) >= 1) => PrintT(<<"EMIT", ToJson([e |-> e, valid |-> ValidEdges(e)])>>)
=============================================================================
