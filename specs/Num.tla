------------------------------- MODULE Num -------------------------------
(* Arithmetic helpers shared by every specification module.                                          *)
(* TLC integers are 32-bit and TLC *fails* on overflow (it never wraps silently), so every exact     *)
(* quantity below is either small by construction or carried as a certificate of small integers.     *)
EXTENDS Integers, Sequences, FiniteSets, TLC

Abs(x) == IF x < 0 THEN -x ELSE x
Min(a, b) == IF a <= b THEN a ELSE b
Max(a, b) == IF a >= b THEN a ELSE b
Sign(x) == IF x > 0 THEN 1 ELSE IF x < 0 THEN -1 ELSE 0

RECURSIVE GCD(_, _)
GCD(a, b) == IF b = 0 THEN Abs(a) ELSE GCD(Abs(b), Abs(a) % Abs(b))

(* Sum_{i=1..n} F(i), as a locally recursive function (TLC memoises it; no deep operator recursion). *)
SumTo(F(_), n) == LET f[i \in 0..n] == IF i = 0 THEN 0 ELSE f[i - 1] + F(i) IN f[n]
SumSeq(s) == SumTo(LAMBDA i : s[i], Len(s))
CountTo(P(_), n) == SumTo(LAMBDA i : IF P(i) THEN 1 ELSE 0, n)

Range(s) == {s[i] : i \in DOMAIN s}
Last(s) == s[Len(s)]
Vec(n, F(_)) == [i \in 1..n |-> F(i)]
VPlus(a, b) == [i \in DOMAIN a |-> a[i] + b[i]]
(* record of flat integer vectors: pointwise sum, all-zero test *)
RecPlus(a, b) == [k \in DOMAIN a |-> VPlus(a[k], b[k])]

(* ---- rationals <<p, q>>, q > 0, gcd-normalised; NaN = <<0,0>>; +Inf = <<1,0>>; -Inf = <<-1,0>> ---- *)
NaN == <<0, 0>>
IsNaN(r) == r[1] = 0 /\ r[2] = 0
IsInf(r) == r[1] # 0 /\ r[2] = 0
IsFin(r) == r[2] # 0
Rat(p, q) == IF q = 0 THEN <<Sign(p), 0>>
             ELSE LET g == GCD(p, q)  s == IF q < 0 THEN -1 ELSE 1 IN <<(s * p) \div g, (s * q) \div g>>
RInt(n) == <<n, 1>>
RAdd(a, b) == IF IsNaN(a) \/ IsNaN(b) THEN NaN
              ELSE IF IsInf(a) /\ IsInf(b) THEN (IF a[1] = b[1] THEN a ELSE NaN)
              ELSE IF IsInf(a) THEN a ELSE IF IsInf(b) THEN b
              ELSE LET g == GCD(a[2], b[2]) IN Rat(a[1] * (b[2] \div g) + b[1] * (a[2] \div g), (a[2] \div g) * b[2])
RNeg(a) == <<-a[1], a[2]>>
RSub(a, b) == RAdd(a, RNeg(b))
RMul(a, b) == IF IsNaN(a) \/ IsNaN(b) THEN NaN
              ELSE IF (IsInf(a) /\ b[1] = 0) \/ (IsInf(b) /\ a[1] = 0) THEN NaN
              ELSE IF IsInf(a) \/ IsInf(b) THEN <<Sign(a[1]) * Sign(b[1]), 0>>
              ELSE LET g1 == GCD(a[1], b[2])  g2 == GCD(b[1], a[2])
                       h1 == IF g1 = 0 THEN 1 ELSE g1   h2 == IF g2 = 0 THEN 1 ELSE g2
                   IN Rat((a[1] \div h1) * (b[1] \div h2), (a[2] \div h2) * (b[2] \div h1))
(* IEEE-like division: x/0 = +-Inf, 0/0 = NaN, x/Inf = 0 *)
RInv(a) == IF IsNaN(a) THEN NaN ELSE IF IsInf(a) THEN <<0, 1>> ELSE IF a[1] = 0 THEN <<1, 0>> ELSE Rat(a[2], a[1])
RDiv(a, b) == IF IsNaN(a) \/ IsNaN(b) THEN NaN
              ELSE IF b[1] = 0 /\ b[2] # 0 THEN (IF a[1] = 0 THEN NaN ELSE <<Sign(a[1]), 0>>)
              ELSE IF IsInf(a) /\ IsInf(b) THEN NaN
              ELSE RMul(a, RInv(b))
RSq(a) == RMul(a, a)
RSumTo(F(_), n) == LET f[i \in 0..n] == IF i = 0 THEN <<0, 1>> ELSE RAdd(f[i - 1], F(i)) IN f[n]
InfToNaN(r) == IF IsInf(r) THEN NaN ELSE r
RLess(a, b) == a[1] * b[2] < b[1] * a[2]      \* finite operands, small

(* Round a non-negative integer to a p-bit mantissa, ties to even (IEEE product of exactly representable ints). *)
RECURSIVE BitLen(_)
BitLen(x) == IF x = 0 THEN 0 ELSE 1 + BitLen(x \div 2)
Pow2(k) == LET f[i \in 0..k] == IF i = 0 THEN 1 ELSE 2 * f[i - 1] IN f[k]
RoundMant(x, p) == LET a == Abs(x)  bl == BitLen(a) IN
    IF bl <= p THEN x
    ELSE LET sh == bl - p  u == Pow2(sh)  q == a \div u  r == a % u  half == u \div 2
             up == (r > half) \/ (r = half /\ q % 2 = 1)
         IN Sign(x) * ((IF up THEN q + 1 ELSE q) * u)
=============================================================================
