--------------------------------- MODULE AES ---------------------------------
(* C05 / C10 / C07, property layer: AES written from FIPS-197 first principles.                                     *)
(* GF(2^8) multiplication from xtime (modulus x^8+x^4+x^3+x+1), S-box = affine transformation of the multiplicative   *)
(* inverse (computed, not transcribed), MixColumns from the {02,03,01,01} circulant and its inverse {0e,0b,0d,09}.      *)
(* A state is a sequence of 16 bytes, byte k (1-based k) at row (k-1) mod 4, column (k-1) div 4 (FIPS input order).     *)
(* A key schedule is a sequence of 4-byte words W[0..4(Nr+1)-1] (1-based here).                                        *)
EXTENDS Integers, Sequences, Bitwise, TLC

X2(a, b) == a ^^ b
X3(a, b, c) == (a ^^ b) ^^ c
X4(a, b, c, d) == ((a ^^ b) ^^ c) ^^ d
Xtime(b) == LET s == (2 * b) % 256 IN IF b >= 128 THEN s ^^ 27 ELSE s
\* multiplication in GF(2^8): shift-and-add over the bits of b
RECURSIVE GMulAcc(_, _, _, _)
GMulAcc(acc, a, b, i) == IF i = 8 THEN acc ELSE GMulAcc(IF b % 2 = 1 THEN acc ^^ a ELSE acc, Xtime(a), b \div 2, i + 1)
GMul(a, b) == GMulAcc(0, a, b, 0)
BitOf(x, i) == (x \div (2 ^ i)) % 2
\* affine transformation over GF(2): b'_i = b_i + b_(i+4) + b_(i+5) + b_(i+6) + b_(i+7) + c_i, c = {63}
Affine(x) == LET bit(i) == (BitOf(x, i) + BitOf(x, (i + 4) % 8) + BitOf(x, (i + 5) % 8) + BitOf(x, (i + 6) % 8) + BitOf(x, (i + 7) % 8) + BitOf(99, i)) % 2
                 s[i \in 0..8] == IF i = 0 THEN 0 ELSE s[i - 1] + bit(i - 1) * (2 ^ (i - 1))
             IN s[8]
\* The derived tables are computed ONCE, when TLC evaluates these assumptions (in order), and kept in TLC registers
\* (a zero-arity definition would be re-evaluated at every use).
ASSUME TLCSet(101, [x \in 0..255 |-> IF x = 0 THEN 0 ELSE CHOOSE y \in 1..255 : GMul(x, y) = 1])      \* multiplicative inverse
InvT == TLCGet(101)
ASSUME TLCSet(102, [x \in 0..255 |-> Affine(InvT[x])])                                             \* S-box
SBoxT == TLCGet(102)
ASSUME TLCSet(103, [y \in 0..255 |-> CHOOSE x \in 0..255 : SBoxT[x] = y])                            \* inverse S-box
InvSBoxT == TLCGet(103)
ASSUME TLCSet(104, [x \in 0..255 |-> Xtime(x)])
ASSUME TLCSet(105, [x \in 0..255 |-> Xtime(x) ^^ x])
ASSUME TLCSet(106, [x \in 0..255 |-> GMul(x, 9)])
ASSUME TLCSet(107, [x \in 0..255 |-> GMul(x, 11)])
ASSUME TLCSet(108, [x \in 0..255 |-> GMul(x, 13)])
ASSUME TLCSet(109, [x \in 0..255 |-> GMul(x, 14)])
M2 == TLCGet(104)
M3 == TLCGet(105)
M9 == TLCGet(106)
M11 == TLCGet(107)
M13 == TLCGet(108)
M14 == TLCGet(109)

\* ---- round operations on a state ---------------------------------------------------------------------------------
SubBytes(s) == [k \in 1..16 |-> SBoxT[s[k]]]
InvSubBytes(s) == [k \in 1..16 |-> InvSBoxT[s[k]]]
\* row r is rotated left by r:  new(r, c) = old(r, (c + r) mod 4)
ShiftRows(s) == [k \in 1..16 |-> LET r == (k - 1) % 4  c == (k - 1) \div 4 IN s[r + 4 * ((c + r) % 4) + 1]]
InvShiftRows(s) == [k \in 1..16 |-> LET r == (k - 1) % 4  c == (k - 1) \div 4 IN s[r + 4 * ((c - r + 4) % 4) + 1]]
MixCol(a) == <<X4(M2[a[1]], M3[a[2]], a[3], a[4]), X4(a[1], M2[a[2]], M3[a[3]], a[4]), X4(a[1], a[2], M2[a[3]], M3[a[4]]), X4(M3[a[1]], a[2], a[3], M2[a[4]])>>
InvMixCol(a) == <<X4(M14[a[1]], M11[a[2]], M13[a[3]], M9[a[4]]), X4(M9[a[1]], M14[a[2]], M11[a[3]], M13[a[4]]),
                  X4(M13[a[1]], M9[a[2]], M14[a[3]], M11[a[4]]), X4(M11[a[1]], M13[a[2]], M9[a[3]], M14[a[4]])>>
Column(s, c) == <<s[4 * c + 1], s[4 * c + 2], s[4 * c + 3], s[4 * c + 4]>>
MixColumns(s) == [k \in 1..16 |-> MixCol(Column(s, (k - 1) \div 4))[((k - 1) % 4) + 1]]
InvMixColumns(s) == [k \in 1..16 |-> InvMixCol(Column(s, (k - 1) \div 4))[((k - 1) % 4) + 1]]
XorSeq(a, b) == [k \in 1..Len(a) |-> a[k] ^^ b[k]]
AddRoundKey(s, rk) == XorSeq(s, rk)

\* ---- key expansion (FIPS-197 5.2) ------------------------------------------------------------------------------------
Nk(key) == Len(key) \div 4
NrOf(key) == Nk(key) + 6
RotWord(w) == <<w[2], w[3], w[4], w[1]>>
SubWord(w) == [i \in 1..4 |-> SBoxT[w[i]]]
RconByte(j) == LET f[i \in 1..j] == IF i = 1 THEN 1 ELSE Xtime(f[i - 1]) IN f[j]          \* x^(j-1)
Rcon(j) == <<RconByte(j), 0, 0, 0>>
\* G_i: the transformation applied to W[i-1] when computing W[i] (0-based i)
G(nk, i, w) == IF i % nk = 0 THEN XorSeq(SubWord(RotWord(w)), Rcon(i \div nk))
               ELSE IF nk > 6 /\ i % nk = 4 THEN SubWord(w) ELSE w
\* the schedule is built word by word (accumulator), W[i] = W[i-Nk] xor G_i(W[i-1])
RECURSIVE SchedUp(_, _, _)
SchedUp(nk, total, acc) == IF Len(acc) >= total THEN acc
                           ELSE SchedUp(nk, total, Append(acc, XorSeq(acc[Len(acc) + 1 - nk], G(nk, Len(acc), acc[Len(acc)]))))
KeyWords(key) == [i \in 1..Nk(key) |-> <<key[4 * i - 3], key[4 * i - 2], key[4 * i - 1], key[4 * i]>>]
Schedule(key) == SchedUp(Nk(key), 4 * (NrOf(key) + 1), KeyWords(key))
RoundKey(sched, r) == sched[4 * r + 1] \o sched[4 * r + 2] \o sched[4 * r + 3] \o sched[4 * r + 4]      \* r = 0..Nr
\* inverse recurrence: W[i] = W[i+Nk] xor G_(i+Nk)(W[i+Nk-1]); from ANY window of Nk consecutive words starting at column a
\* `acc` holds words W[lo..lo+Len-1]; extend downwards to W[0], then upwards to W[total-1]
RECURSIVE SchedDown(_, _, _)
SchedDown(nk, lo, acc) == IF lo = 0 THEN acc
                          ELSE SchedDown(nk, lo - 1, <<XorSeq(acc[nk], G(nk, lo - 1 + nk, acc[nk - 1]))>> \o acc)
ScheduleFromWindow(nk, total, a, window) == SchedUp(nk, total, SchedDown(nk, a, window))

\* ---- flattened operation lists with the code's (round, step) grid: position = 4 * round + step + 1 -------------------------
Rep(n, s) == LET f[i \in 0..n] == IF i = 0 THEN <<>> ELSE f[i - 1] \o s IN f[n]
EncOps(nr) == <<"id", "id", "id", "ark">> \o Rep(nr - 1, <<"sb", "sr", "mc", "ark">>) \o <<"sb", "sr", "id", "ark">>
DecOps(nr) == <<"ark", "id", "isr", "isb">> \o Rep(nr - 1, <<"ark", "imc", "isr", "isb">>) \o <<"ark", "id", "id", "id">>
KeyIdx(mode, nr, pos) == IF mode = "enc" THEN (pos - 1) \div 4 ELSE nr - (pos - 1) \div 4
Apply(op, s, rk) == CASE op = "id" -> s [] op = "ark" -> AddRoundKey(s, rk)
                      [] op = "sb" -> SubBytes(s) [] op = "sr" -> ShiftRows(s) [] op = "mc" -> MixColumns(s)
                      [] op = "isb" -> InvSubBytes(s) [] op = "isr" -> InvShiftRows(s) [] op = "imc" -> InvMixColumns(s)
=============================================================================
