------------------------------ MODULE Analysis ------------------------------
(* C02 / C08, mechanism layer (K) of Container.batches + _BaseAnalysis.run + the convergence bookkeeping of      *)
(* BaseAttack, one action per code step; the properties (P) are invariants over what the distinguisher is fed    *)
(* and over the convergence columns.                                                                            *)
(*   StartRun(n)  : a container with n traces (local ids 1..n); effective batch size from base and step;         *)
(*                  slices = [k*bs, (k+1)*bs) for k < n div bs, plus a tail slice if n mod bs # 0                 *)
(*   Process      : the next slice is read (samples AND metadata of the SAME sub-set) and handed to update        *)
(*   LoopCompute  : _batch_loop_compute: append processed to the marks; if last - first >= step: marks := <<last>>, *)
(*                  compute results+scores, append a convergence column                                          *)
(*   FinalCompute : compute results+scores; append a column only if more than one mark is pending                 *)
(* Trace ids are local to a run; `fed` is the log of what update received: <<run, first id, last id>> (contiguous *)
(* by construction of a slice), `mfed` the same for the metadata rows.                                          *)
EXTENDS Integers, Sequences, TLC, Json

CONSTANTS MaxN, MaxBase, MaxStep, MaxRuns, Gen,
          SliceBug      \* "none" | sensitivity variants of the slice construction ("droptail", "dupfirst")

VARIABLES base, step, run, n, bs, slices, cur, phase, processed, marks, cols, fed, computes, resAt, scoAt, ns
vars == <<base, step, run, n, bs, slices, cur, phase, processed, marks, cols, fed, computes, resAt, scoAt, ns>>

Min(a, b) == IF a <= b THEN a ELSE b
Last(s) == s[Len(s)]

\* K: BaseAttack._compute_batch_size
EffBatch(b, st) == IF st = 0 THEN b ELSE IF b >= st THEN st ELSE st \div (st \div b)
\* K: _TracesBatchIterable.__init__
Slices(len, b) == LET full == [k \in 1..(len \div b) |-> <<(k - 1) * b + 1, k * b>>]
                  IN CASE SliceBug = "droptail" -> full
                       [] SliceBug = "dupfirst" /\ len % b # 0 -> Append(full, <<(len \div b) * b, len>>)
                       [] OTHER -> IF len % b # 0 THEN Append(full, <<(len \div b) * b + 1, len>>) ELSE full

Init == /\ base \in 1..MaxBase /\ step \in 0..MaxStep
        /\ run = 0 /\ n = 0 /\ bs = 0 /\ slices = <<>> /\ cur = 0 /\ phase = "idle"
        /\ processed = 0 /\ marks = <<0>> /\ cols = <<>> /\ fed = <<>> /\ computes = <<>> /\ resAt = -1 /\ scoAt = -1 /\ ns = <<>>

StartRun(len) == /\ phase = "idle" /\ run < MaxRuns
                 /\ run' = run + 1 /\ n' = len /\ ns' = Append(ns, len)
                 /\ bs' = EffBatch(base, step)
                 /\ slices' = Slices(len, EffBatch(base, step))
                 /\ cur' = 0 /\ phase' = "loop"
                 /\ UNCHANGED <<base, step, processed, marks, cols, fed, computes, resAt, scoAt>>

Process == /\ phase = "loop" /\ cur < Len(slices)
           /\ cur' = cur + 1
           /\ fed' = Append(fed, <<run, slices[cur + 1][1], slices[cur + 1][2]>>)
           /\ processed' = processed + (slices[cur + 1][2] - slices[cur + 1][1] + 1)
           /\ phase' = "loopcompute"
           /\ UNCHANGED <<base, step, run, n, bs, slices, marks, cols, computes, resAt, scoAt, ns>>

Col(kind) == [at |-> processed, kind |-> kind, run |-> run]

LoopCompute == /\ phase = "loopcompute"
               /\ IF step > 0
                  THEN LET m2 == Append(marks, processed) IN
                       IF Last(m2) - m2[1] >= step
                       THEN /\ marks' = <<processed>> /\ cols' = Append(cols, Col("loop"))
                            /\ computes' = Append(computes, processed) /\ resAt' = processed /\ scoAt' = processed
                       ELSE /\ marks' = m2 /\ UNCHANGED <<cols, computes, resAt, scoAt>>
                  ELSE UNCHANGED <<marks, cols, computes, resAt, scoAt>>
               /\ phase' = "loop"
               /\ UNCHANGED <<base, step, run, n, bs, slices, cur, processed, fed, ns>>

FinalCompute == /\ phase = "loop" /\ cur = Len(slices)
                /\ computes' = Append(computes, processed) /\ resAt' = processed /\ scoAt' = processed
                /\ cols' = IF step > 0 /\ Len(marks) > 1 THEN Append(cols, Col("rem")) ELSE cols
                /\ phase' = "idle"
                /\ UNCHANGED <<base, step, run, n, bs, slices, cur, processed, marks, fed, ns>>

Next == (\E len \in 1..MaxN : StartRun(len)) \/ Process \/ LoopCompute \/ FinalCompute
Spec == Init /\ [][Next]_vars

\* ---- P (C02): every trace exactly once, in order, whatever the batch size -------------------------------
FedOfRun(r) == SelectSeq(fed, LAMBDA f : f[1] = r)
\* the batches of a run tile 1..(what has been consumed) in order, none empty
FeedTiles == \A r \in 1..run : LET fr == FedOfRun(r) IN
               /\ \A i \in 1..Len(fr) : fr[i][2] <= fr[i][3]
               /\ (Len(fr) > 0 => fr[1][2] = 1)
               /\ \A i \in 1..(Len(fr) - 1) : fr[i + 1][2] = fr[i][3] + 1
WholeSetConsumed == phase = "idle" => \A r \in 1..run : LET fr == FedOfRun(r) IN Len(fr) > 0 /\ Last(fr)[3] = ns[r]
ProcessedIsTotal == phase = "idle" => processed = (LET s[i \in 0..Len(ns)] == IF i = 0 THEN 0 ELSE s[i - 1] + ns[i] IN s[Len(ns)])
EffectiveBatchPositive == run > 0 => bs >= 1
\* results and scores are those of everything processed, and scores are refreshed together with results
ResultsAreFinal == (phase = "idle" /\ run > 0) => resAt = processed /\ scoAt = resAt

\* ---- P (C08): convergence columns ---------------------------------------------------------------------
Increasing == \A i \in 1..(Len(cols) - 1) : cols[i].at < cols[i + 1].at
\* consecutive in-loop points are at least one step apart, the first at least one step from the start
LoopSpacing == \A i, j \in 1..Len(cols) : (i < j /\ cols[i].kind = "loop" /\ cols[j].kind = "loop") => cols[j].at - cols[i].at >= step
FirstLoopAfterStep == \A i \in 1..Len(cols) : cols[i].kind = "loop" => cols[i].at >= step
\* a remainder column is the last of its run
\* the statement's reading without the mechanism's loop / remainder labels (this is what AnalysisTrace judges observed points with): a point is a
\* "final remainder" iff it is the last of its run AND closer than one step to the point before it; every other point is ordinary, and ordinary
\* points are pairwise at least one step apart and at least one step from the start
PrevAt(i) == IF i = 1 THEN 0 ELSE cols[i - 1].at
IsRemainder(i) == (i = Len(cols) \/ cols[i + 1].run > cols[i].run) /\ cols[i].at - PrevAt(i) < step
OrdinarySpacing == (phase = "idle") =>
    /\ \A i, j \in 1..Len(cols) : (i < j /\ ~IsRemainder(i) /\ ~IsRemainder(j)) => cols[j].at - cols[i].at >= step
    /\ \A i \in 1..Len(cols) : ~IsRemainder(i) => cols[i].at >= step
RemIsLastOfRun == \A i \in 1..Len(cols) : cols[i].kind = "rem" => (i = Len(cols) \/ cols[i + 1].run > cols[i].run)
\* after every run the last column is at the total processed so far
EndsAtTotal == (phase = "idle" /\ step > 0 /\ run > 0) => (Len(cols) > 0 /\ Last(cols).at = processed)
\* every column is taken at a batch boundary, when results/scores are freshly computed for exactly `at` traces
ColumnsAreComputes == \A i \in 1..Len(cols) : \E j \in 1..Len(computes) : computes[j] = cols[i].at
NoColumnsWithoutStep == step = 0 => cols = <<>>

Emit == (Gen /\ phase = "idle" /\ run > 0) =>
          PrintT(<<"EMIT", ToJson([base |-> base, step |-> step, ns |-> ns, bs |-> bs, fed |-> fed, cols |-> cols, computes |-> computes])>>)
=============================================================================
