SPECIFICATION Spec
CONSTANTS Variant = "fixed"
          MaxCalls = 4
          MaxK = 2
INVARIANT RejectedLeavesNoTrace
INVARIANT AcceptedAccumulates
INVARIANT ValidCallAccepted
INVARIANT FaultyCallRaises
INVARIANT CountEqualsAccumulated
CHECK_DEADLOCK FALSE
