------------------------------- MODULE TplEnum -------------------------------
(* C14: exhaustive enumeration of small building sets (multisets of rows <<trace, class>>): in every state the pooled      *)
(* covariance is symmetric positive semi-definite, the pseudo-inverse satisfies the Penrose identities, and the quantities  *)
(* as the code computes them from its accumulators (K) equal the definitions (P).  States in which every declared class has  *)
(* at least two traces are emitted and replayed on the real template builder.                                             *)
EXTENDS Tpl, Json
CONSTANTS S, TVals, MaxN, Gen
Classes == <<1, 0>>          \* declared in this order: class position is not class value
VARIABLE rows
Init == rows = <<>>
TraceSet == IF S = 1 THEN {<<a>> : a \in TVals} ELSE {<<a, b>> : a \in TVals, b \in TVals}
Key(r) == IF S = 1 THEN r.t[1] * 10 + r.d[1] ELSE (r.t[1] * 10 + r.t[2]) * 10 + r.d[1]
Next == /\ Len(rows) < MaxN
        /\ \E t \in TraceSet, c \in {0, 1} : LET r == [t |-> t, d |-> <<c>>] IN
              /\ (IF rows = <<>> THEN TRUE ELSE Key(rows[Len(rows)]) <= Key(r))
              /\ rows' = Append(rows, r)
Spec == Init /\ [][Next]_rows
Full == AllClassesHaveTwo(rows, Classes)
P == Pooled(rows, Classes, S)
Lemmas == Len(rows) > 0 => /\ PSD(P, S) /\ IsPInv(PInv(P, S), P, S)
                  /\ PooledK(rows, Classes, S) = P
                  /\ TemplateK(rows, Classes, S, "fixed") = Templates(rows, Classes, S)
MeanLemma == Len(rows) > 0 => TemplateK(rows, Classes, S, "fixed") = Templates(rows, Classes, S)
\* emitted: every state where all classes have >= 2 traces, and a third of the others (empty / single-trace classes)
Emit == (Gen /\ Len(rows) > 0 /\ (Full \/ Len(rows) % 3 = 1)) => PrintT(<<"EMIT", ToJson([rows |-> rows, tpl |-> Templates(rows, Classes, S), pooled |-> P, pinv |-> PInv(P, S)])>>)
=============================================================================
