------------------------------ MODULE KernelSeq ------------------------------
(* C11, property layer: a batch has the SAME effect whichever accumulation kernel processes it.  History machine  *)
(* over driver-proposed cases: every ordered partition into <= MaxBatches batches x every sequence of kernel      *)
(* choices (2^batches), with the expected state after every batch.  Also the run-time choice rule of the code      *)
(* (K): timings start at [-2, -1], the kernel with the smallest last timing is picked and its timing replaced by   *)
(* a non-negative measurement: first call kernel 1, second call kernel 2, afterwards either; more than 9 classes    *)
(* (partitioned only): always kernel 1.                                                                           *)
EXTENDS DistOps, Json, IOUtils
CONSTANTS MaxBatches, RecordHist
Cases == JsonDeserialize(IOEnv.CASES)
VARIABLES case, pos, acc, nb, hist, timings
vars == <<case, pos, acc, nb, hist, timings>>
Cfg == Cases[case].c
Rows == Cases[case].rows
N == Len(Rows)
OnlyKernel1 == Cfg.kind = "part" /\ Len(Cfg.classes) > 9
Init == /\ case \in 1..Len(Cases) /\ pos = 0 /\ nb = 0 /\ hist = <<>>
        /\ acc = Zero(Cases[case].c) /\ timings = <<-2, -1>>
\* K: which kernels may the code pick by itself in this state (measured timings are any non-negative numbers: 0 or 1 suffice to order them)
ArgMin(t) == IF t[1] <= t[2] THEN 1 ELSE 2
FreeChoice == IF OnlyKernel1 THEN {1} ELSE {ArgMin(timings)}
Update(k, kern) ==
   /\ pos + k <= N /\ nb < MaxBatches /\ (nb + 1 = MaxBatches => pos + k = N)
   /\ (OnlyKernel1 => kern = 1)
   /\ LET a2 == Plus(acc, Contribution(Cfg, SubSeq(Rows, pos + 1, pos + k))) IN      \* P: identical for both kernels
      /\ acc' = a2 /\ pos' = pos + k /\ nb' = nb + 1
      /\ hist' = IF RecordHist THEN Append(hist, [op |-> "update", k |-> k, kern |-> kern, n |-> pos + k, acc |-> a2, free |-> kern \in FreeChoice]) ELSE hist
   /\ \E m \in {0, 1} : timings' = IF OnlyKernel1 THEN timings ELSE [timings EXCEPT ![kern] = m]
   /\ UNCHANGED case
Next == \E k \in 1..N, kern \in {1, 2} : Update(k, kern)
Spec == Init /\ [][Next]_vars
StateIsFunctionOfPrefix == acc = Contribution(Cfg, SubSeq(Rows, 1, pos))
\* K lemma: left to itself the code uses kernel 1 first, kernel 2 second (when <= 9 classes)
Complete == pos = N
Emit == (RecordHist /\ Complete) => PrintT(<<"EMIT", ToJson([case |-> case, hist |-> hist])>>)
=============================================================================
