------------------------------- MODULE SigEnum -------------------------------
(* Every signal up to MaxLen over Alphabet (states = signals) with the expected outputs of the signal helpers.    *)
(* Mode "win": windowed sum / mean / central moments for every window size; (M) the raw-moment formulas of the     *)
(*             code equal the central moments by definition.                                                      *)
(* Mode "winsum": windowed sum / mean only, for large values.                                                      *)
(* Mode "pat": per-window Pearson certificate, squared Euclidean distance and BCDC^2 against every pattern.        *)
(* Mode "width": find_width for both directions, thresholds and width bounds.                                      *)
EXTENDS Signal, Stats, Json
CONSTANTS Mode, MaxLen, MinLen, Alphabet, Gen, MaxPat
VARIABLE sig
Pow(b, e) == LET f[i \in 0..e] == IF i = 0 THEN 1 ELSE b * f[i - 1] IN f[e]
Init == sig = <<>>
Next == Len(sig) < MaxLen /\ \E x \in Alphabet : sig' = Append(sig, x)
Spec == Init /\ [][Next]_sig
L == Len(sig)
Big == L >= MinLen

MomentLemma == (Mode = "win" /\ Big) => \A w \in 1..L : \A k \in 0..(L - w) : MomentsKMatchP(Win(sig, k, w))
WinRec(w) == [k \in 1..(L - w + 1) |-> LET s == Win(sig, k - 1, w) IN
                [sum |-> PowSum(s, 1), mean |-> WMean(s), var |-> Central(s, 2), mu3 |-> Central(s, 3), mu4 |-> Central(s, 4)]]

\* all patterns of length 1..MaxPat shorter than the signal; Alphabet = 0..A-1; pattern j of length n has digits of j in base A
A == Cardinality(Alphabet)
PatByIndex(n, j) == [i \in 1..n |-> (j \div Pow(A, i - 1)) % A]
NPat == IF L - 1 < MaxPat THEN L - 1 ELSE MaxPat
PatRec(y) == [k \in 1..(L - Len(y) + 1) |-> LET x == Win(sig, k - 1, Len(y)) IN
                [cert |-> PearsonRaw(PairSeq(x, y)), d2 |-> Dist2(x, y), b2 |-> Bcdc2(x, y)]]
PatAll == [n \in 1..NPat |-> [j \in 1..Pow(A, n) |-> [y |-> PatByIndex(n, j - 1), win |-> PatRec(PatByIndex(n, j - 1))]]]
\* Cauchy-Schwarz on every window (sanity of the definitions): |r| <= 1
PatLemma == (Mode = "pat" /\ Big) => \A n \in 1..NPat : \A j \in 1..Pow(A, n) :
               \A k \in 0..(L - n) : PearsonBounded(PairSeq(Win(sig, k, n), PatByIndex(n, j - 1)))

WidthRec == [dir \in {"pos", "neg"} |-> [thr \in {0, 1} |-> [lo \in 1..3 |-> [hi \in 1..(L + 1) |-> Widths(sig, dir, thr, lo, hi)]]]]
\* runs reported for a bound are disjoint and ordered (sanity)
WidthLemma == (Mode = "width" /\ Big) => \A dir \in {"pos", "neg"}, thr \in {0, 1} :
                 LET ws == Widths(sig, dir, thr, 1, L + 1) IN \A i \in 1..(Len(ws) - 1) : ws[i][2] < ws[i + 1][1]

\* Mode "winsum": windowed sums and means only (no moments: values may be large - half-precision inputs whose running sums leave the exactly
\* representable range of their own type)
SumRec(w) == [k \in 1..(L - w + 1) |-> LET s == Win(sig, k - 1, w) IN [sum |-> PowSum(s, 1), mean |-> WMean(s)]]
Emit == (Gen /\ Big) => PrintT(<<"EMIT", ToJson(
          CASE Mode = "win" -> [sig |-> sig, win |-> [w \in 1..L |-> WinRec(w)]]
            [] Mode = "winsum" -> [sig |-> sig, win |-> [w \in 1..L |-> SumRec(w)]]
            [] Mode = "pat" -> [sig |-> sig, pat |-> PatAll]
            [] Mode = "width" -> [sig |-> sig, width |-> WidthRec])>>)
=============================================================================
