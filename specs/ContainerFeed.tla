---------------------------- MODULE ContainerFeed ----------------------------
(* What a Container hands to an analysis for one trace: the samples at the frame positions, THEN the preprocess    *)
(* chain applied to that selection, in order (C02: "update receives chain(samples[ids][:, frame])").              *)
(* Cases (JSON): [rows |-> integer sample rows, frame |-> 0-based positions in the order given, chain |-> names].  *)
(* Preprocesses modelled: plus1, minus1, twice, square (sample-wise) and cumsum (every output mixes the samples to its     *)
(* left - the order of frame selection and chain matters).                                                        *)
(* Late == the plausible wrong mechanism "read the contiguous block, run the chain, decimate afterwards"; TLC must *)
(* find a case where it differs (sensitivity), and must find none among the sample-wise chains (lemma).            *)
EXTENDS Num, Json, IOUtils
Cases == JsonDeserialize(IOEnv.CASES)
VARIABLE case
Init == case \in 1..Len(Cases)
Next == UNCHANGED case
Spec == Init /\ [][Next]_case
C == Cases[case]

Select(row, frame) == [i \in 1..Len(frame) |-> row[frame[i] + 1]]
Apply(name, row) == CASE name = "plus1" -> [i \in 1..Len(row) |-> row[i] + 1]
                      [] name = "twice" -> [i \in 1..Len(row) |-> 2 * row[i]]
                      [] name = "square" -> [i \in 1..Len(row) |-> row[i] * row[i]]
                      [] name = "minus1" -> [i \in 1..Len(row) |-> row[i] - 1]
                      [] name = "cumsum" -> [i \in 1..Len(row) |-> SumTo(LAMBDA j : row[j], i)]
Chain(names, row) == LET f[k \in 0..Len(names)] == IF k = 0 THEN row ELSE Apply(names[k], f[k - 1]) IN f[Len(names)]
Fed(row) == Chain(C.chain, Select(row, C.frame))
\* the wrong order: chain on the whole contiguous hull of the frame, selection afterwards
Lo == LET m[i \in 1..Len(C.frame)] == IF i = 1 THEN C.frame[1] ELSE Min(m[i - 1], C.frame[i]) IN m[Len(C.frame)]
Hi == LET m[i \in 1..Len(C.frame)] == IF i = 1 THEN C.frame[1] ELSE Max(m[i - 1], C.frame[i]) IN m[Len(C.frame)]
Late(row) == LET hull == [i \in 1..(Hi - Lo + 1) |-> row[Lo + i]]
                 full == Chain(C.chain, hull)
             IN [i \in 1..Len(C.frame) |-> full[C.frame[i] - Lo + 1]]
SampleWise == \A k \in 1..Len(C.chain) : C.chain[k] # "cumsum"
\* (M) sample-wise chains commute with the selection; with a mixing preprocess they need not (Late is refuted on the case set)
SampleWiseCommutes == SampleWise => \A r \in 1..Len(C.rows) : Late(C.rows[r]) = Fed(C.rows[r])
OrderIrrelevant == \A r \in 1..Len(C.rows) : Late(C.rows[r]) = Fed(C.rows[r])
\* (M) the feed has one value per frame position
FeedWidth == \A r \in 1..Len(C.rows) : Len(Fed(C.rows[r])) = Len(C.frame)
Emit == PrintT(<<"EMIT", ToJson([case |-> case, fed |-> [r \in 1..Len(C.rows) |-> Fed(C.rows[r])]])>>)
=============================================================================
