------------------------------ MODULE TTestCases ------------------------------
(* Expected Welch certificates per sample for driver-proposed pairs of trace sets (rows of integers).                   *)
EXTENDS Stats, Json, IOUtils
Cases == JsonDeserialize(IOEnv.CASES)        \* [a |-> rows of set 1, b |-> rows of set 2]
VARIABLE case
Init == case \in 1..Len(Cases)
Next == UNCHANGED case
Spec == Init /\ [][Next]_case
C == Cases[case]
Col(rows, s) == [i \in 1..Len(rows) |-> rows[i][s]]
\* (M) the raw-moment variance the code uses equals the centred definition
VarianceFormulationsAgree == \A s \in 1..Len(C.a[1]) : PopVar(Col(C.a, s)) = PopVarCentred(Col(C.a, s)) /\ PopVar(Col(C.b, s)) = PopVarCentred(Col(C.b, s))
Emit == PrintT(<<"EMIT", ToJson([case |-> case, cert |-> [s \in 1..Len(C.a[1]) |-> WelchCert(Col(C.a, s), Col(C.b, s))],
                                  mean1 |-> [s \in 1..Len(C.a[1]) |-> Rat(SeqSum(Col(C.a, s)), Len(C.a))], var1 |-> [s \in 1..Len(C.a[1]) |-> PopVar(Col(C.a, s))]])>>)
=============================================================================
