------------------------------ MODULE TTestCases ------------------------------
(* Expected Welch certificates per sample for driver-proposed pairs of trace sets (rows of integers).                   *)
EXTENDS Stats, Json, IOUtils
Cases == JsonDeserialize(IOEnv.CASES)        \* [a |-> rows of set 1, b |-> rows of set 2]
VARIABLE case
Init == case \in 1..Len(Cases)
Next == UNCHANGED case
Spec == Init /\ [][Next]_case
C == Cases[case]
Col(rows, s) == [i \in 1..Len(rows) |-> rows[i][s]]
\* (M) the raw-moment variance the code uses equals the centred definition
VarianceFormulationsAgree == \A s \in 1..Len(C.a[1]) : PopVar(Col(C.a, s)) = PopVarCentred(Col(C.a, s)) /\ PopVar(Col(C.b, s)) = PopVarCentred(Col(C.b, s))
\* (M) presenting both sets K times leaves the difference of means and the population variances unchanged and multiplies both counts by K:
\* the certificate's second component is divided by K (the statistic grows by sqrt(K)).  Checked for K = 2, 3; used by the harness to derive
\* the expected statistic of trace sets of many thousand traces (one batch larger than any internal block) from a small case.
Rep(xs, K) == LET f[k \in 0..K] == IF k = 0 THEN <<>> ELSE f[k - 1] \o xs IN f[K]
ReplicationLemma == \A s \in 1..Len(C.a[1]) : \A K \in {2, 3} :
    LET c1 == WelchCert(Col(C.a, s), Col(C.b, s))  cK == WelchCert(Rep(Col(C.a, s), K), Rep(Col(C.b, s), K))
    IN cK[1] = c1[1] /\ (IsFin(c1[2]) => cK[2] = RDiv(c1[2], RInt(K)))
\* (M) adding the same constant to every entry of both sets changes neither the difference of means nor the variances: the certificate is unchanged.
\* Checked for c = 1, 7, -3; used by the harness to present a small case on a large common offset (float32 batches whose squares are not representable
\* in their own type, accumulated in float64; column-major batches coming out of a preprocess).
ShiftBy(xs, c) == [i \in 1..Len(xs) |-> xs[i] + c]
ShiftLemma == \A s \in 1..Len(C.a[1]) : \A c \in {1, 7, -3} :
    WelchCert(ShiftBy(Col(C.a, s), c), ShiftBy(Col(C.b, s), c)) = WelchCert(Col(C.a, s), Col(C.b, s))
Emit == PrintT(<<"EMIT", ToJson([case |-> case, cert |-> [s \in 1..Len(C.a[1]) |-> WelchCert(Col(C.a, s), Col(C.b, s))],
                                  mean1 |-> [s \in 1..Len(C.a[1]) |-> Rat(SeqSum(Col(C.a, s)), Len(C.a))], var1 |-> [s \in 1..Len(C.a[1]) |-> PopVar(Col(C.a, s))]])>>)
=============================================================================
