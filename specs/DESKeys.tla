------------------------------- MODULE DESKeys -------------------------------
(* C10 (DES): the schedule of every proposed key (round keys as 8 words of 6 bits), and judgement of the master keys the     *)
(* real get_master_key returned: the same key up to parity bits.                                                          *)
EXTENDS DES, Json, IOUtils
In == JsonDeserialize(IOEnv.CASES)        \* [keys |-> 8-byte keys, recovered |-> [k |-> key index, got |-> 8 bytes]]
CONSTANT Mode         \* "sched" | "recovered"
VARIABLE i
Init == i \in 1..(IF Mode = "sched" THEN Len(In.keys) ELSE Len(In.recovered))
Next == UNCHANGED i
Spec == Init /\ [][Next]_i
\* (M) C16 || D16 = C0 || D0 : the total rotation is 28
FullRotation == CumShift(16) = 28
\* every round key bit is a key bit that is not a parity bit: flipping the parity bits changes nothing
ParityFree == Mode = "sched" => KeySchedule([j \in 1..64 |-> IF j % 8 = 0 THEN 1 - Bits(In.keys[i])[j] ELSE Bits(In.keys[i])[j]]) = KeySchedule(Bits(In.keys[i]))
Emit == IF Mode = "sched" THEN PrintT(<<"EMIT", ToJson([k |-> i, rk |-> [r \in 1..16 |-> Words(RoundKey(Bits(In.keys[i]), r), 6)]])>>)
        ELSE PrintT(<<"VERDICT", i, SameUpToParity(Bits(In.recovered[i].got), Bits(In.keys[In.recovered[i].k]))>>)
=============================================================================
