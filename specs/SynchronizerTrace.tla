--------------------------- MODULE SynchronizerTrace ---------------------------
(* Code -> spec (C20): executions recorded from the real Synchronizer.  One event per call of the user function, logged   *)
(* inside the call: the answer it is about to give (A / R / N) and the two counters as the object shows them at that moment; *)
(* plus the final counters and the source ids of the output rows.  An execution is accepted iff it is a behaviour of the     *)
(* run loop of module Synchronizer: before the k-th call processed = k - 1 and synchronized = number of earlier A's; at the   *)
(* end processed = number of calls, synchronized = number of A's, output = the accepted ids in input order.                 *)
EXTENDS Integers, Sequences, TLC, Json, IOUtils
Traces == JsonDeserialize(IOEnv.TRACES)     \* [ev |-> <<[ans, processed, synchronized]>>, final |-> [processed, synchronized, out]]
VARIABLE t
Init == t \in 1..Len(Traces)
Next == UNCHANGED t
Spec == Init /\ [][Next]_t
T == Traces[t]
CountA(k) == Len(SelectSeq(SubSeq(T.ev, 1, k), LAMBDA e : e.ans = "A"))
AcceptedIds == SelectSeq([k \in 1..Len(T.ev) |-> IF T.ev[k].ans = "A" THEN k ELSE 0], LAMBDA x : x > 0)
FirstBad == LET bad == {k \in 1..Len(T.ev) : T.ev[k].processed # k - 1 \/ T.ev[k].synchronized # CountA(k - 1)}
            IN IF bad = {} THEN 0 ELSE CHOOSE k \in bad : \A j \in bad : k <= j
Clause == IF FirstBad # 0 THEN "counters seen by call " \o ToString(FirstBad) \o " are those of the calls before it"
          ELSE IF T.final.processed # Len(T.ev) \/ T.final.synchronized # CountA(Len(T.ev)) THEN "final counters equal the number of inputs / accepted traces"
          ELSE IF T.final.out # AcceptedIds THEN "output rows are the accepted traces in input order"
          ELSE "ok"
Verdict == PrintT(<<"VERDICT", ToJson([t |-> t, clause |-> Clause])>>)
=============================================================================
