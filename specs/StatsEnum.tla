----------------------------- MODULE StatsEnum -----------------------------
(* Exhaustive enumeration of small observation lists for one (word, sample) pair (C03, C04).            *)
(* The machine appends one observation <<x, v>> per step in non-decreasing order, so its reachable       *)
(* states are exactly the multisets of up to MaxN observations over XVals x VVals.  In every state TLC   *)
(* checks (M) that the quantity as the code computes it from its accumulators (K) equals the textbook   *)
(* definition (P), and that the definitions satisfy their own sanity identities; in generation mode      *)
(* every state is emitted with its exact expected results and replayed on the real distinguishers.       *)
EXTENDS Stats, Json

CONSTANTS Kind,        \* "pearson" | "dom" | "classes"
          MaxN, MinN, XVals, VVals,
          Classes,     \* declared class values (a sequence), Kind = "classes"
          Gen          \* TRUE: emit every state of size >= MinN

VARIABLE ps
vars == <<ps>>

Leq(a, b) == a[1] < b[1] \/ (a[1] = b[1] /\ a[2] <= b[2])
Init == ps = <<>>
Add(x, v) == /\ Len(ps) < MaxN
             /\ (IF ps = <<>> THEN TRUE ELSE Leq(ps[Len(ps)], <<x, v>>))
             /\ ps' = Append(ps, <<x, v>>)
Next == \E x \in XVals, v \in VVals : Add(x, v)
Spec == Init /\ [][Next]_vars

Big == Len(ps) >= MinN

\* ---- (M) model lemmas ---------------------------------------------------------------------------
PearsonLemmas == (Kind = "pearson" /\ Big) => PearsonFormulationsAgree(ps) /\ PearsonBounded(ps) /\ CpaKMatchesP(ps)
\* undefined exactly when a column is constant; never infinite
PearsonNaNRule == (Kind = "pearson" /\ Big) =>
    LET constx == \A i \in 1..Len(ps) : ps[i][1] = ps[1][1]
        consty == \A i \in 1..Len(ps) : ps[i][2] = ps[1][2]
        r == CpaK(AccOf(ps), N(ps))  ra == CpaAltK(AccOf(ps), N(ps))
    IN /\ (IsNaN(r[2]) <=> (constx \/ consty)) /\ ~IsInf(r[2])
       /\ (IsNaN(ra[2]) <=> (constx \/ consty)) /\ ~IsInf(ra[2])
DomLemmas == (Kind = "dom" /\ Big) => DpaKMatchesP(ps) /\ ~IsInf(DpaK(SX(ps), SX(Ones(ps)), Len(Ones(ps)), N(ps)))
ClassLemmas == (Kind = "classes" /\ Big) => SSDecomposes(ps, Classes) /\ PartKMatchesP(ps, Classes)
\* empty classes, class order and undeclared observations are irrelevant (these are also C12's model lemmas)
Reverse(s) == [i \in 1..Len(s) |-> s[Len(s) + 1 - i]]
ClassOrderIrrelevant == (Kind = "classes" /\ Big) =>
    /\ FStat(ps, Reverse(Classes)) = FStat(ps, Classes)
    /\ Nicv(ps, Reverse(Classes)) = Nicv(ps, Classes)
    /\ Snr(ps, Reverse(Classes)) = Snr(ps, Classes)
    /\ AnovaK(TermsOf(ps, Reverse(Classes))) = AnovaK(TermsOf(ps, Classes))
    /\ SnrK(TermsOf(ps, Reverse(Classes)), Len(Classes)) = SnrK(TermsOf(ps, Classes), Len(Classes))
ExtraClassIrrelevant == (Kind = "classes" /\ Big) =>
    LET more == Classes \o <<77>> IN
    /\ FStat(ps, more) = FStat(ps, Classes) /\ Nicv(ps, more) = Nicv(ps, Classes) /\ Snr(ps, more) = Snr(ps, Classes)
    /\ SnrK(TermsOf(ps, more), Len(more)) = SnrK(TermsOf(ps, Classes), Len(Classes))
NoInfinity == (Kind = "classes" /\ Big) => ~IsInf(FStat(ps, Classes)) /\ ~IsInf(Nicv(ps, Classes)) /\ ~IsInf(Snr(ps, Classes))

\* ---- (G) generation ------------------------------------------------------------------------------
Rec == CASE Kind = "pearson" -> [ps |-> ps, cert |-> PearsonRaw(ps)]
         [] Kind = "dom" -> [ps |-> ps, cert |-> DoMCert(ps)]
         [] Kind = "classes" -> [ps |-> ps, f |-> FStat(ps, Classes), nicv |-> Nicv(ps, Classes), snr |-> Snr(ps, Classes)]
Emit == (Gen /\ Big) => PrintT(<<"EMIT", ToJson(Rec)>>)
=============================================================================
