------------------------------ MODULE SigPeaksV ------------------------------
(* Code -> spec: outputs recorded from the real find_peaks, judged by the declarative post-condition ValidPeaks.   *)
EXTENDS Signal, Json, IOUtils
Cases == JsonDeserialize(IOEnv.CASES)        \* sequence of [sig, d, h, out]
VARIABLE case
Init == case \in 1..Len(Cases)
Next == UNCHANGED case
Spec == Init /\ [][Next]_case
C == Cases[case]
Verdict == PrintT(<<"VERDICT", case, ValidPeaks(C.sig, C.d, C.h, C.out)>>)
=============================================================================
