----------------------------- MODULE Preprocess -----------------------------
(* C18: preprocesses by their documented definitions, row by row, in exact arithmetic.                            *)
(* A trace row is a sequence of dyadic numbers <<m, e>> = m * 2^e (e = 0 for ordinary integers), so that values far  *)
(* beyond 32 bits (3 * 2^31, 2^62) are represented with small integers: no wrap-around by construction.            *)
(* Frames are explicit 0-based index lists.                                                                        *)
EXTENDS Num, Json, IOUtils

\* ---- dyadics ---------------------------------------------------------------------------------------------------
DMul(a, b) == <<a[1] * b[1], a[2] + b[2]>>
DAlign(a, e) == a[1] * Pow2(a[2] - e)
DSub(a, b) == LET e == Min(a[2], b[2]) IN <<DAlign(a, e) - DAlign(b, e), e>>
DAdd(a, b) == LET e == Min(a[2], b[2]) IN <<DAlign(a, e) + DAlign(b, e), e>>
DAbs(a) == <<Abs(a[1]), a[2]>>
DPow(a, k) == LET f[i \in 0..k] == IF i = 0 THEN <<1, 0>> ELSE DMul(f[i - 1], a) IN f[k]

\* ---- documented pair lists (positions inside the frames, 0-based) -------------------------------------------------
Flatten(ss) == LET f[i \in 0..Len(ss)] == IF i = 0 THEN <<>> ELSE f[i - 1] \o ss[i] IN f[Len(ss)]
PairsFull(L) == Flatten([i \in 1..L |-> [j \in 1..(L - i + 1) |-> <<i - 1, i - 1 + j - 1>>]])              \* all i <= j, row major
PairsDist(L, d) == Flatten([i \in 1..L |-> [j \in 1..(Min(i - 1 + d, L - 1) - (i - 1) + 1) |-> <<i - 1, i - 1 + j - 1>>]])
PairsTwo(L1, L2) == Flatten([i \in 1..L1 |-> [j \in 1..L2 |-> <<i - 1, j - 1>>]])
PairsSame(L) == [i \in 1..L |-> <<i - 1, i - 1>>]
NoDup(s) == \A i, j \in 1..Len(s) : i # j => s[i] # s[j]

Op(name, a, b) == CASE name = "product" -> DMul(a, b)
                    [] name = "difference" -> DSub(a, b)
                    [] name = "absdiff" -> DAbs(DSub(a, b))
\* one output row of a combination: cfg = [op, mode ("full" | "same" | "dist"), f1, f2 (<<>> = none), d, mean (<<>> = none; else one dyadic per sample)]
Centered(row, mean) == IF mean = <<>> THEN row ELSE [k \in 1..Len(row) |-> DSub(row[k], mean[k])]
PairList(cfg) == CASE cfg.mode = "dist" -> PairsDist(Len(cfg.f1), cfg.d)
                   [] cfg.mode = "same" -> PairsSame(Len(cfg.f1))
                   [] cfg.f2 = <<>> -> PairsFull(Len(cfg.f1))
                   [] OTHER -> PairsTwo(Len(cfg.f1), Len(cfg.f2))
CombRow(cfg, row0) == LET row == Centered(row0, cfg.mean)
                          f2 == IF cfg.f2 = <<>> THEN cfg.f1 ELSE cfg.f2
                          ps == PairList(cfg)
                          opn == IF cfg.op = "centered_product" THEN "product" ELSE cfg.op
                      IN [k \in 1..Len(ps) |-> Op(opn, row[cfg.f1[ps[k][1] + 1] + 1], row[f2[ps[k][2] + 1] + 1])]
PairCount(cfg) == CASE cfg.mode = "dist" -> SumTo(LAMBDA i : Min(cfg.d + 1, Len(cfg.f1) - (i - 1)), Len(cfg.f1))
                    [] cfg.mode = "same" -> Len(cfg.f1)
                    [] cfg.f2 = <<>> -> (Len(cfg.f1) * (Len(cfg.f1) + 1)) \div 2
                    [] OTHER -> Len(cfg.f1) * Len(cfg.f2)

\* ---- first-order -------------------------------------------------------------------------------------------------
PowRow(row, k) == [i \in 1..Len(row) |-> DPow(row[i], k)]
\* batch mean of column c as a rational (plain integers only: e = 0)
ColMean(rows, c) == Rat(SumTo(LAMBDA r : rows[r][c][1], Len(rows)), Len(rows))
CenterRow(rows, r) == [c \in 1..Len(rows[r]) |-> RSub(RInt(rows[r][c][1]), ColMean(rows, c))]
\* n^2 * population variance of column c (std^2 = this / n^2)
ColVarN2(rows, c) == Len(rows) * SumTo(LAMBDA r : rows[r][c][1] * rows[r][c][1], Len(rows)) - SumTo(LAMBDA r : rows[r][c][1], Len(rows)) * SumTo(LAMBDA r : rows[r][c][1], Len(rows))
Bits8(v) == [b \in 1..8 |-> (v \div Pow2(8 - b)) % 2]                         \* most significant bit first
SerializeRow(row) == Flatten([i \in 1..Len(row) |-> Bits8(row[i][1] % 256)])

\* ---- DFT over the Gaussian integers for lengths 1, 2, 4; complex = <<re, im>> ---------------------------------------
CAdd(a, b) == <<a[1] + b[1], a[2] + b[2]>>
CMul(a, b) == <<a[1] * b[1] - a[2] * b[2], a[1] * b[2] + a[2] * b[1]>>
CConj(a) == <<a[1], -a[2]>>
Mod2(a) == a[1] * a[1] + a[2] * a[2]
W4(k) == CASE k % 4 = 0 -> <<1, 0>> [] k % 4 = 1 -> <<0, -1>> [] k % 4 = 2 -> <<-1, 0>> [] k % 4 = 3 -> <<0, 1>>     \* exp(-2 pi i k / 4)
Tw(N, k) == IF N = 1 THEN <<1, 0>> ELSE IF N = 2 THEN W4(2 * k) ELSE W4(k)
DFT(x, k) == LET N == Len(x)  f[n \in 0..N] == IF n = 0 THEN <<0, 0>> ELSE CAdd(f[n - 1], CMul(<<x[n], 0>>, Tw(N, (n - 1) * k))) IN f[N]
RFFT(x) == [k \in 1..(Len(x) \div 2 + 1) |-> DFT(x, k - 1)]
\* circular cross-correlation by its time-domain definition, any length:  c[k] = sum_n a[n] * b[(n + k) mod N]
XcorrRow(a, b) == [k \in 1..Len(a) |-> SumTo(LAMBDA n : a[n] * b[((n - 1 + k - 1) % Len(a)) + 1], Len(a))]
\* (M) for lengths 1, 2, 4 the frequency-domain formula of the code gives the same: real(irfft(conj(A) B)) * N = sum_k ...; checked through Parseval-free identity at k = 0
XcorrDC(a, b) == SumTo(LAMBDA k : XcorrRow(a, b)[k], Len(a)) = SumSeq(a) * SumSeq(b)
=============================================================================
