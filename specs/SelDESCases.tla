----------------------------- MODULE SelDESCases -----------------------------
(* Full hypothesis tables of the DES selection functions for driver-proposed 8-byte inputs: table[fn][g + 1][w].           *)
EXTENDS SelDES, Json, IOUtils
Blocks == JsonDeserialize(IOEnv.CASES)
VARIABLES i, f
Init == i \in 1..Len(Blocks) /\ f \in 1..Len(SelFns)
Next == UNCHANGED <<i, f>>
Spec == Init /\ [][Next]_<<i, f>>
Emit == PrintT(<<"EMIT", ToJson([i |-> i, fn |-> SelFns[f], tab |-> [g \in 1..64 |-> [w \in 1..8 |-> Hyp(SelFns[f], Blocks[i], g - 1, w)]]])>>)
=============================================================================
