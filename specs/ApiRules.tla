------------------------------ MODULE ApiRules ------------------------------
(* Argument validation of the public entry points, as a decision table per entry point: an abstract argument is a          *)
(* record [kind, v] (kind: "int", "float", "bool", "str", "none", "list", "intarr", "floatarr"; v: an integer payload);       *)
(* Outcome(api, args) is "ok" or the class of the error the documentation / code announces ("TypeError", "ValueError").     *)
(* TLC enumerates every combination of the small argument domains; each state is replayed on the real entry point.       *)
(* (growth of the specification beyond the listed properties: refusals are part of the behaviour users rely on)           *)
EXTENDS Integers, Sequences, TLC, Json
CONSTANT Api
Kinds == {"int", "float", "str", "none"}
Ints == {-1, 0, 1, 3, 8, 9, 16, 20}
Arg == [kind : Kinds, v : Ints]
VARIABLES a, b
Init == a \in Arg /\ b \in Arg
Next == UNCHANGED <<a, b>>
Spec == Init /\ [][Next]_<<a, b>>
IsInt(x) == x.kind = "int"
Num(x) == x.kind \in {"int", "float"}

\* scared.set_batch_size(a)            (b unused)
\* (a float argument stands for v + 0.5 when v >= 0 and v - 0.5 otherwise)
Positive(x) == IF x.kind = "float" THEN x.v >= 0 ELSE x.v > 0
BatchSize == IF a.kind = "none" THEN "ok"
             ELSE IF Num(a) THEN (IF ~Positive(a) THEN "ValueError" ELSE "ok")
             ELSE "TypeError"
\* <X>Attack(convergence_step = a)
ConvStep == IF a.kind = "none" THEN "ok" ELSE IF ~IsInt(a) THEN "TypeError" ELSE IF a.v <= 0 THEN "ValueError" ELSE "ok"
\* Monobit(a)
MonobitR == IF ~IsInt(a) THEN "TypeError" ELSE IF a.v < 0 \/ a.v > 8 THEN "ValueError" ELSE "ok"
\* HammingWeight(nb_words = a) applied to b.v words of uint8 data (b int > 0)
HwR == IF ~IsInt(a) THEN "TypeError" ELSE IF a.v <= 0 THEN "ValueError"
       ELSE IF IsInt(b) /\ b.v >= 1 /\ b.v < a.v THEN "ValueError@call" ELSE "ok"
\* scared.aes.encrypt(block, key128, at_round = a, after_step = b)   (a none -> last round; n_rounds = 11 round keys)
\* the round is validated first (a non-integer round fails one way or another: "Error"), then the step
AesStop == IF a.kind \notin {"int", "none"} THEN "Error"
           ELSE IF IsInt(a) /\ (a.v < 0 \/ a.v > 11) THEN "ValueError"
           ELSE IF ~IsInt(b) THEN "TypeError"
           ELSE IF b.v < 0 \/ b.v > 3 THEN "ValueError"
           ELSE "ok"
\* scared.des.encrypt(block, key8, at_round = a, after_step = b)
DesStop == IF a.kind \notin {"int", "none"} THEN "TypeError"
           ELSE IF IsInt(a) /\ (a.v < 0 \/ a.v >= 16) THEN "ValueError"
           ELSE IF ~IsInt(b) THEN "TypeError"
           ELSE IF b.v < 0 \/ b.v > 9 THEN "ValueError"
           ELSE "ok"
\* find_peaks(data, min_peak_distance = a, min_peak_height = b)
PeaksR == IF ~IsInt(a) THEN "TypeError" ELSE IF a.v < 0 THEN "ValueError" ELSE IF ~Num(b) THEN "TypeError" ELSE "ok"
\* moving_sum(data of length 8, window_size = a)
MovingR == IF ~IsInt(a) THEN "TypeError" ELSE IF a.v <= 0 THEN "ValueError" ELSE IF a.v > 8 THEN "ValueError" ELSE "ok"
Outcome == CASE Api = "batch_size" -> BatchSize [] Api = "convergence_step" -> ConvStep [] Api = "monobit" -> MonobitR
             [] Api = "hamming_weight" -> HwR [] Api = "aes_stop" -> AesStop [] Api = "des_stop" -> DesStop
             [] Api = "find_peaks" -> PeaksR [] Api = "moving" -> MovingR
\* every combination has exactly one outcome and valid arguments exist (the table is total and not vacuous)
Total == Outcome \in {"ok", "TypeError", "ValueError", "ValueError@call", "Error"}
Emit == PrintT(<<"EMIT", ToJson([a |-> a, b |-> b, out |-> Outcome])>>)
=============================================================================
