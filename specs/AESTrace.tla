------------------------------ MODULE AESTrace ------------------------------
(* Code -> spec: for recorded executions (the successive stop-point states the real code returns for one key and block), *)
(* every consecutive pair must be exactly one operation of the FIPS list with the FIPS round key.                      *)
EXTENDS AES, Json, IOUtils
Traces == JsonDeserialize(IOEnv.TRACES)        \* [key, mode, states]  states[1] = input, states[p + 1] = state after p operations
VARIABLE tid
Init == tid \in 1..Len(Traces)
Next == UNCHANGED tid
Spec == Init /\ [][Next]_tid
T == Traces[tid]
NrT == NrOf(T.key)
OpsT == IF T.mode = "enc" THEN EncOps(NrT) ELSE DecOps(NrT)
FirstBad == LET sc == Schedule(T.key)
                bad == {p \in 1..(Len(T.states) - 1) : T.states[p + 1] # Apply(OpsT[p], T.states[p], RoundKey(sc, KeyIdx(T.mode, NrT, p)))}
            IN IF bad = {} THEN 0 ELSE CHOOSE p \in bad : \A q \in bad : p <= q
Verdict == PrintT(<<"VERDICT", tid, FirstBad>>)
=============================================================================
