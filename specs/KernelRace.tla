----------------------------- MODULE KernelRace -----------------------------
(* C11, mechanism layer: the two accumulation kernels of the partitioned distinguishers and of the template  *)
(* builder at loop-nest granularity.  A numba `prange` loop runs its iterations concurrently: each iteration   *)
(* is a process; every `a[cell] += v` of the loop body is a READ step followed by a WRITE step (the increment  *)
(* is not atomic).  Modelled kernels (Kern):                                                                  *)
(*   "part1"  prange over samples s: for t: for w: if idx(t,w) # -1: sum[s,w,idx]+=x; sq[s,w,idx]+=x*x;        *)
(*                                                  if s = 1: cnt[w,idx]+=1                                    *)
(*   "part2"  sequential over classes p (array expressions; one atomic step per class)                          *)
(*   "tpl1"   prange over samples s: for t: if idx(t) # -1: exi[idx,s]+=x; if s = 1: cnt[idx]+=1;              *)
(*                                                  exxi[idx,s,b]+=x*t[b] for every b                          *)
(*   "tpl2"   prange over classes p: cnt[p]+=..; exi[p,*]+=..; exxi[p,*,*]+=..                                  *)
(*   "part1racy" (sensitivity): like part1 but EVERY sample iteration bumps cnt - TLC must refute it.          *)
(* Checked: no cell ever has two iterations between their read and write of it (no lost update), and when all  *)
(* iterations are done the memory equals the sequential sum (= the P-layer Contribution of the batch).        *)
EXTENDS Num

CONSTANTS Kern, S, T, W, C,
          X,        \* X[t][s]  samples
          Idx       \* Idx[t][w] looked-up class position 1..C, or 0 for "undeclared" (-1 in the code)

Cell(name, a, b, c) == <<name, a, b, c>>

\* the sequence of increments <<cell, delta>> performed by prange iteration i
OpsPart1(i, racy) == LET per(t, w) == IF Idx[t][w] = 0 THEN <<>> ELSE
                                    <<<<Cell("sum", i, w, Idx[t][w]), X[t][i]>>, <<Cell("sq", i, w, Idx[t][w]), X[t][i] * X[t][i]>>>>
                                    \o (IF i = 1 \/ racy THEN <<<<Cell("cnt", 0, w, Idx[t][w]), 1>>>> ELSE <<>>)
                         flat[k \in 0..(T * W)] == IF k = 0 THEN <<>> ELSE flat[k - 1] \o per((k - 1) \div W + 1, ((k - 1) % W) + 1)
                     IN flat[T * W]
OpsTpl1(i) == LET per(t) == IF Idx[t][1] = 0 THEN <<>> ELSE
                              <<<<Cell("exi", Idx[t][1], i, 0), X[t][i]>>>>
                              \o (IF i = 1 THEN <<<<Cell("cnt", Idx[t][1], 0, 0), 1>>>> ELSE <<>>)
                              \o [b \in 1..S |-> <<Cell("exxi", Idx[t][1], i, b), X[t][i] * X[t][b]>>]
                  flat[k \in 0..T] == IF k = 0 THEN <<>> ELSE flat[k - 1] \o per(k)
              IN flat[T]
\* class-wise kernels: iteration p handles class p with whole-array expressions (atomic per cell here: one op per cell)
InClass(p, w) == {t \in 1..T : Idx[t][w] = p}
SumOver(F(_), set) == LET seq == [k \in 1..T |-> IF k \in set THEN F(k) ELSE 0] IN SumSeq(seq)
OpsPart2(p) == LET cells == [k \in 1..(W * (1 + 2 * S)) |->
                       LET w == (k - 1) \div (1 + 2 * S) + 1  r == (k - 1) % (1 + 2 * S) IN
                       IF r = 0 THEN <<Cell("cnt", 0, w, p), Cardinality(InClass(p, w))>>
                       ELSE IF r <= S THEN <<Cell("sum", r, w, p), SumOver(LAMBDA t : X[t][r], InClass(p, w))>>
                       ELSE <<Cell("sq", r - S, w, p), SumOver(LAMBDA t : X[t][r - S] * X[t][r - S], InClass(p, w))>>]
               IN cells
OpsTpl2(p) == <<<<Cell("cnt", p, 0, 0), Cardinality(InClass(p, 1))>>>>
              \o [s \in 1..S |-> <<Cell("exi", p, s, 0), SumOver(LAMBDA t : X[t][s], InClass(p, 1))>>]
              \o [k \in 1..(S * S) |-> LET a == (k - 1) \div S + 1  b == ((k - 1) % S) + 1 IN
                                       <<Cell("exxi", p, a, b), SumOver(LAMBDA t : X[t][a] * X[t][b], InClass(p, 1))>>]

Procs == IF Kern \in {"part1", "part1racy", "tpl1"} THEN 1..S ELSE 1..C
Parallel == Kern \in {"part1", "part1racy", "tpl1", "tpl2"}        \* part2's class loop is sequential
Ops(i) == CASE Kern = "part1" -> OpsPart1(i, FALSE) [] Kern = "part1racy" -> OpsPart1(i, TRUE)
            [] Kern = "tpl1" -> OpsTpl1(i) [] Kern = "part2" -> OpsPart2(i) [] Kern = "tpl2" -> OpsTpl2(i)

AllCells == UNION {{Ops(i)[k][1] : k \in 1..Len(Ops(i))} : i \in Procs}

VARIABLES mem, pc, tmp      \* pc[i] = <<op index, "r" | "w">>; tmp[i] = value read
vars == <<mem, pc, tmp>>
Init == /\ mem = [c \in AllCells |-> 0]
        /\ pc = [i \in Procs |-> <<1, "r">>]
        /\ tmp = [i \in Procs |-> 0]
Done(i) == pc[i][1] > Len(Ops(i))
\* sequential loops: iteration i may only run when all earlier iterations are done
MayRun(i) == Parallel \/ \A j \in Procs : j < i => Done(j)
Read(i) == /\ ~Done(i) /\ MayRun(i) /\ pc[i][2] = "r"
           /\ tmp' = [tmp EXCEPT ![i] = mem[Ops(i)[pc[i][1]][1]]]
           /\ pc' = [pc EXCEPT ![i] = <<pc[i][1], "w">>] /\ UNCHANGED mem
Write(i) == /\ ~Done(i) /\ pc[i][2] = "w"
            /\ mem' = [mem EXCEPT ![Ops(i)[pc[i][1]][1]] = tmp[i] + Ops(i)[pc[i][1]][2]]
            /\ pc' = [pc EXCEPT ![i] = <<pc[i][1] + 1, "r">>] /\ UNCHANGED tmp
Next == \E i \in Procs : Read(i) \/ Write(i)
Spec == Init /\ [][Next]_vars

\* ---- properties --------------------------------------------------------------------------------------
\* no lost update: two iterations are never both between the read and the write of the same cell
NoRace == \A i, j \in Procs : (i # j /\ ~Done(i) /\ ~Done(j) /\ pc[i][2] = "w" /\ pc[j][2] = "w") => Ops(i)[pc[i][1]][1] # Ops(j)[pc[j][1]][1]
\* P: what the batch must add, by definition (class identified by looked-up position; undeclared rows ignored)
Expected(cell) ==
  CASE cell[1] = "sum" -> SumOver(LAMBDA t : X[t][cell[2]], InClass(cell[4], cell[3]))
    [] cell[1] = "sq" -> SumOver(LAMBDA t : X[t][cell[2]] * X[t][cell[2]], InClass(cell[4], cell[3]))
    [] cell[1] = "cnt" -> IF cell[2] = 0 THEN Cardinality(InClass(cell[4], cell[3])) ELSE Cardinality(InClass(cell[2], 1))
    [] cell[1] = "exi" -> SumOver(LAMBDA t : X[t][cell[3]], InClass(cell[2], 1))
    [] cell[1] = "exxi" -> SumOver(LAMBDA t : X[t][cell[3]] * X[t][cell[4]], InClass(cell[2], 1))
FinalIsContribution == (\A i \in Procs : Done(i)) => \A c \in AllCells : mem[c] = Expected(c)
=============================================================================
