SPECIFICATION Spec
CONSTANTS MaxBatches = 4
          MaxComputes = 2
          MaxRejects = 0
          RecordHist = TRUE
INVARIANT Emit
CHECK_DEADLOCK FALSE
