------------------------------ MODULE AESStops ------------------------------
(* C05, mechanism layer (K): how scared.aes builds the list of operations for a stop point, against the flattened      *)
(* FIPS operation list (P) of module AES.  Purely structural (no data): exhaustive over key sizes, directions, rounds,   *)
(* steps.  _prepare_rounds: rounds = [FIRST] + [ROUND or LAST (when i = n_rounds - 1)] for i in 1..at_round; the last    *)
(* list is cut after after_step + 1 operations; AddRoundKey of list i uses round_keys[i] (flipped for decrypt).        *)
EXTENDS AES
CONSTANT CutBug       \* "none" | "offbyone" (sensitivity: cut after after_step instead of after_step + 1)
VARIABLES nr, mode, r, s
vars == <<nr, mode, r, s>>
Init == nr \in {10, 12, 14} /\ mode \in {"enc", "dec"} /\ r \in 0..nr /\ s \in 0..3
Next == UNCHANGED vars
Spec == Init /\ [][Next]_vars
First(m) == IF m = "enc" THEN <<"id", "id", "id", "ark">> ELSE <<"ark", "id", "isr", "isb">>
Round(m) == IF m = "enc" THEN <<"sb", "sr", "mc", "ark">> ELSE <<"ark", "imc", "isr", "isb">>
LastR(m) == IF m = "enc" THEN <<"sb", "sr", "id", "ark">> ELSE <<"ark", "id", "id", "id">>
\* K: n_rounds = nr + 1 round keys
PrepareRoundsK == LET full == <<First(mode)>> \o [i \in 1..r |-> IF i = nr THEN LastR(mode) ELSE Round(mode)]
                      cut == IF CutBug = "offbyone" THEN s ELSE s + 1
                  IN [full EXCEPT ![Len(full)] = SubSeq(@, 1, cut)]
FlatK == LET f[i \in 0..Len(PrepareRoundsK)] == IF i = 0 THEN <<>> ELSE f[i - 1] \o PrepareRoundsK[i] IN f[Len(PrepareRoundsK)]
\* K: key index used by the AddRoundKey found in list i (0-based): round_keys[i], and round_keys are flipped for decrypt
KeyIdxK(i) == IF mode = "enc" THEN i ELSE nr - i
POps == IF mode = "enc" THEN EncOps(nr) ELSE DecOps(nr)
StopIsPrefixOfFips == FlatK = SubSeq(POps, 1, 4 * r + s + 1)
KeysAreFips == \A p \in 1..Len(FlatK) : FlatK[p] = "ark" => KeyIdxK((p - 1) \div 4) = KeyIdx(mode, nr, p)
=============================================================================
