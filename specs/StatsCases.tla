----------------------------- MODULE StatsCases -----------------------------
(* Expected results (P) for driver-proposed multi-word / multi-sample datasets: one initial state per    *)
(* case, no transitions.  For every (word w, sample s) the observation list is projected from the rows   *)
(* and the textbook definition of module Stats is evaluated on it; the flat order of the emitted list   *)
(* is the documented layout (word dims in C order, then sample).  (M): in every state the value computed *)
(* by the code's formulas from the ABSTRACT STATE (the accumulators of module DistOps) equals the        *)
(* definition on the raw observations.                                                                  *)
EXTENDS DistOps, Stats, Json, IOUtils

Cases == JsonDeserialize(IOEnv.CASES)

VARIABLE case
vars == <<case>>
Init == case \in 1..Len(Cases)
Next == UNCHANGED case
Spec == Init /\ [][Next]_vars

C == Cases[case].c
Rows == Cases[case].rows
Obs(w, s) == [i \in 1..Len(Rows) |-> <<Rows[i].t[s], Rows[i].d[w]>>]
WS(F(_, _)) == [j \in 1..(C.W * C.S) |-> F((j - 1) \div C.S + 1, ((j - 1) % C.S) + 1)]
Acc == Contribution(C, Rows)

Result == CASE C.kind = "cpa" -> [cert |-> WS(LAMBDA w, s : PearsonRaw(Obs(w, s)))]
            [] C.kind = "dpa" -> [cert |-> WS(LAMBDA w, s : DoMCert(Obs(w, s)))]
            [] C.kind = "part" -> [f |-> WS(LAMBDA w, s : FStat(Obs(w, s), C.classes)),
                                   nicv |-> WS(LAMBDA w, s : Nicv(Obs(w, s), C.classes)),
                                   snr |-> WS(LAMBDA w, s : Snr(Obs(w, s), C.classes))]

\* (M) code formulas on the abstract accumulators == definitions on the raw observations
KMatchesP ==
  CASE C.kind = "cpa" -> CpaR(C, Acc, Len(Rows)) = WS(LAMBDA w, s : PearsonRaw(Obs(w, s)))
    [] C.kind = "dpa" -> DpaR(C, Acc, Len(Rows)) = WS(LAMBDA w, s : DoMCert(Obs(w, s)))
    [] C.kind = "part" -> \A w \in 1..C.W, s \in 1..C.S :
                             LET ts == PartTerms(C, Acc, w, s) IN
                             /\ AnovaK(ts) = FStat(Obs(w, s), C.classes)
                             /\ NicvK(ts) = Nicv(Obs(w, s), C.classes)
                             /\ SnrK(ts, Len(C.classes)) = Snr(Obs(w, s), C.classes)

Emit == PrintT(<<"EMIT", ToJson([case |-> case, res |-> Result])>>)
=============================================================================
