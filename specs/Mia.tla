-------------------------------- MODULE Mia --------------------------------
(* C13: mutual information between the histogram bin of a sample and the value class of a word.         *)
(* P: the bin of a sample is decided by COMPARISON with the configured edges (right-most edge inclusive, *)
(*    outside discarded) - this needs only the order of the numbers involved, so samples and edges are   *)
(*    given as integers (either the values themselves or their ranks in the IEEE order of the floats).   *)
(*    MI = H(B) - H(B|V) = sum over non-empty cells of (c_bv/N) ln(c_bv N / (c_b c_v)); ln is not        *)
(*    interpreted here: the exact term list <<c_bv, c_b, c_v, N>> is the result.                         *)
(* K: the arithmetic bin index of the kernel, int((x - min) * nbins / (max - min)), for integer edges;   *)
(*    the bin-edge validation of the setter (sorted test, then the uniformity test).                     *)
EXTENDS Num, Json, IOUtils

\* ---- bins ------------------------------------------------------------------------------------------
NB(edges) == Len(edges) - 1
InRangeE(x, edges) == x >= edges[1] /\ x <= edges[Len(edges)]
BinByEdges(x, edges) == IF x = edges[Len(edges)] THEN NB(edges)
                        ELSE CHOOSE b \in 1..NB(edges) : edges[b] <= x /\ x < edges[b + 1]
\* K: kernel arithmetic on integer uniform edges (floor division; x in range)
BinArith(x, edges) == IF x = edges[Len(edges)] THEN NB(edges)
                      ELSE ((x - edges[1]) * NB(edges)) \div (edges[Len(edges)] - edges[1]) + 1

\* ---- edge validation -------------------------------------------------------------------------------
Increasing(e) == \A i \in 1..(Len(e) - 1) : e[i] < e[i + 1]
EqualWidths(e) == \A i \in 1..(Len(e) - 2) : e[i + 1] - e[i] = e[i + 2] - e[i + 1]
ValidEdges(e) == Len(e) >= 2 /\ Increasing(e) /\ EqualWidths(e)
\* a second formulation: every edge is on the line through the first two
ValidEdges2(e) == Len(e) >= 2 /\ e[1] < e[2] /\ \A i \in 1..Len(e) : e[i] = e[1] + (i - 1) * (e[2] - e[1])
DD(e, i) == (e[i + 2] - e[i + 1]) - (e[i + 1] - e[i])
\* K, pinned upstream: sum(diff(diff(e))) > 1e-9 -> refused   (a telescoping sum)
AcceptPinned(e) == Len(e) >= 2 /\ Increasing(e) /\ ~(SumTo(LAMBDA i : DD(e, i), Len(e) - 2) > 0)
\* K, repaired: any |second difference| > 1e-9 -> refused
AcceptFixed(e) == Len(e) >= 2 /\ Increasing(e) /\ ~(\E i \in 1..(Len(e) - 2) : Abs(DD(e, i)) > 0)

\* ---- joint histogram and MI terms for one (word, sample): obs = sequence of <<x, v>> ----------------
DeclaredV(v, classes) == \E k \in 1..Len(classes) : classes[k] = v
Cell(obs, edges, classes, b, k) == CountTo(LAMBDA i : /\ obs[i][2] = classes[k] /\ InRangeE(obs[i][1], edges)
                                                      /\ BinByEdges(obs[i][1], edges) = b, Len(obs))
Hist(obs, edges, classes) == [b \in 1..NB(edges) |-> [k \in 1..Len(classes) |-> Cell(obs, edges, classes, b, k)]]
RowTot(h, b) == SumTo(LAMBDA k : h[b][k], Len(h[b]))
ColTot(h, k) == SumTo(LAMBDA b : h[b][k], Len(h))
Total(h) == SumTo(LAMBDA b : RowTot(h, b), Len(h))
Cells(h) == {<<b, k>> : b \in 1..Len(h), k \in 1..Len(h[1])}
Terms(h) == LET B == Len(h)  K == Len(h[1])
                all == [j \in 1..(B * K) |-> <<(j - 1) \div K + 1, ((j - 1) % K) + 1>>]
                nz == SelectSeq(all, LAMBDA c : h[c[1]][c[2]] > 0)
            IN [i \in 1..Len(nz) |-> <<h[nz[i][1]][nz[i][2]], RowTot(h, nz[i][1]), ColTot(h, nz[i][2]), Total(h)>>]
\* bins and classes are independent in the sample: every cell count is the product of its marginals over N
Independent(h) == \A c \in Cells(h) : h[c[1]][c[2]] * Total(h) = RowTot(h, c[1]) * ColTot(h, c[2])
=============================================================================
