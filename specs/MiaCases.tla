------------------------------ MODULE MiaCases ------------------------------
(* Expected joint histogram and MI term lists for driver-proposed cases: c = [S, W, classes, edges], rows.   *)
EXTENDS Mia
Cases == JsonDeserialize(IOEnv.CASES)
VARIABLE case
Init == case \in 1..Len(Cases)
Next == UNCHANGED case
Spec == Init /\ [][Next]_case
C == Cases[case].c
Rows == Cases[case].rows
Obs(w, s) == [i \in 1..Len(Rows) |-> <<Rows[i].t[s], Rows[i].d[w]>>]
H(w, s) == Hist(Obs(w, s), C.edges, C.classes)
WS(F(_, _)) == [j \in 1..(C.W * C.S) |-> F((j - 1) \div C.S + 1, ((j - 1) % C.S) + 1)]
\* every in-range sample of a declared class is counted exactly once
TotalsAreCounts == \A w \in 1..C.W, s \in 1..C.S :
    Total(H(w, s)) = CountTo(LAMBDA i : DeclaredV(Rows[i].d[w], C.classes) /\ InRangeE(Rows[i].t[s], C.edges), Len(Rows))
Emit == PrintT(<<"EMIT", ToJson([case |-> case, res |-> [hist |-> WS(LAMBDA w, s : H(w, s)), terms |-> WS(LAMBDA w, s : Terms(H(w, s))),
                                                           indep |-> WS(LAMBDA w, s : Independent(H(w, s)))]])>>)
=============================================================================
