----------------------------- MODULE Synchronizer -----------------------------
(* C20, mechanism layer (K) of Synchronizer.run, one action per input trace, with the user function as a         *)
(* nondeterministic (or scripted) oracle answering A (returns data), R (raises) or N (returns None):             *)
(*   run(): refuse if already ran; for each trace i: data := None; call; A -> synchronized += 1; R/N -> error     *)
(*   counter.error_occur(processed); finally processed += 1; if data # None: write at index synchronized - 1.     *)
(* _ErrorCounter: consecutive-error counter, warning when it reaches the limit (8), the limit then doubles.      *)
(* P (invariants): the output is exactly the accepted traces, in input order, each at consecutive positions with  *)
(* its own id; processed = number of inputs seen, synchronized = number accepted; a second run is refused and      *)
(* changes nothing.                                                                                              *)
EXTENDS Integers, Sequences, TLC, Json, IOUtils

CONSTANTS MaxLen,        \* enumerate every script up to this length (0: use the driver-proposed scripts)
          Gen,
          WriteIndexBug  \* "none" | "processed" (sensitivity: write index taken from processed instead of synchronized)

Scripts == IF MaxLen = 0 THEN JsonDeserialize(IOEnv.SCRIPTS) ELSE <<>>

VARIABLES script, sid, i, processed, synchronized, out, ran, reruns, limit, lastErr, counter, warnings, checks
vars == <<script, sid, i, processed, synchronized, out, ran, reruns, limit, lastErr, counter, warnings, checks>>

Init == /\ script = <<>> /\ sid \in (IF MaxLen = 0 THEN 1..Len(Scripts) ELSE {0})
        /\ i = 0 /\ processed = 0 /\ synchronized = 0 /\ out = <<>> /\ ran = FALSE /\ reruns = 0
        /\ limit = 8 /\ lastErr = 0 /\ counter = 0 /\ warnings = 0 /\ checks = 0

\* _ErrorCounter.error_occur(error_id)
ErrorOccur(id) == LET c == IF id = lastErr + 1 THEN counter + 1 ELSE 1 IN
                  /\ counter' = c /\ lastErr' = id
                  /\ IF c >= limit THEN limit' = 2 * limit /\ warnings' = warnings + 1 ELSE UNCHANGED <<limit, warnings>>

\* out is a function from output position (1-based) to the id of the written trace; a write at position p overwrites
WriteAt(p, id) == IF p >= 1 /\ p <= Len(out) THEN [out EXCEPT ![p] = id]
                  ELSE IF p = Len(out) + 1 THEN Append(out, id)
                  ELSE out            \* a hole cannot be represented: flagged by the invariant through the length

Step(o) == /\ ~ran
           /\ IF MaxLen = 0 THEN i < Len(Scripts[sid]) /\ o = Scripts[sid][i + 1] ELSE i < MaxLen
           /\ script' = Append(script, o) /\ i' = i + 1
           /\ IF o = "A"
              THEN /\ synchronized' = synchronized + 1
                   /\ out' = WriteAt(IF WriteIndexBug = "processed" THEN processed + 1 ELSE synchronized + 1, i + 1)
                   /\ UNCHANGED <<limit, lastErr, counter, warnings>>
              ELSE /\ ErrorOccur(processed) /\ UNCHANGED <<synchronized, out>>
           /\ processed' = processed + 1
           /\ UNCHANGED <<sid, ran, reruns, checks>>
\* the loop ends (any length when enumerating; at the end of the script otherwise)
Finish == /\ ~ran /\ (MaxLen = 0 => i = Len(Scripts[sid]))
          /\ ran' = TRUE /\ UNCHANGED <<script, sid, i, processed, synchronized, out, reruns, limit, lastErr, counter, warnings, checks>>
\* a second run() is refused
RunAgain == /\ ran /\ reruns < 1 /\ reruns' = reruns + 1
            /\ UNCHANGED <<script, sid, i, processed, synchronized, out, ran, limit, lastErr, counter, warnings, checks>>
\* check(): a dry run of the user function on a few traces picked at random, before run(); it is an observer: nothing the run
\* relies on (counters, output position, error counter) may change, whatever the function answers
DryCheck == /\ ~ran /\ i = 0 /\ checks < 1 /\ checks' = checks + 1
            /\ UNCHANGED <<script, sid, i, processed, synchronized, out, ran, reruns, limit, lastErr, counter, warnings>>
Next == (\E o \in {"A", "R", "N"} : Step(o)) \/ Finish \/ RunAgain \/ DryCheck
Spec == Init /\ [][Next]_vars

\* ---- P ----------------------------------------------------------------------------------------------------
Accepted == SelectSeq([k \in 1..Len(script) |-> IF script[k] = "A" THEN k ELSE 0], LAMBDA x : x > 0)
OutputIsAcceptedInOrder == out = Accepted
CountersMatch == processed = Len(script) /\ synchronized = Len(Accepted)
SecondRunRefused == [][ran => UNCHANGED <<script, processed, synchronized, out>>]_vars
\* K lemma about the warning rule: one warning per crossing of the doubling limit by a run of consecutive failures
Emit == (Gen /\ ran /\ reruns = 0) => PrintT(<<"EMIT", ToJson([script |-> script, out |-> out, processed |-> processed, synchronized |-> synchronized, warnings |-> warnings, sid |-> sid, checked |-> checks])>>)
=============================================================================
