---------------------------- MODULE AnalysisTrace ----------------------------
(* Code -> spec (C08): convergence points OBSERVED on the real attack are judged against the property alone (P), not         *)
(* against the mechanism model of module Analysis.  An observation is                                                      *)
(*   [step, ends (cumulative processed count at the end of every run), bounds (processed count after every batch),          *)
(*    computes (processed count at every computation of results), cols (processed count at every appended column)].         *)
(* P: points strictly increasing; every point is a batch boundary at which results were freshly computed; points that are not   *)
(* final remainders are pairwise at least one step apart and at least one step from the start; after every run the last          *)
(* point is at the total processed so far.                                                                                 *)
EXTENDS Integers, Sequences, TLC, Json, IOUtils
Obs == JsonDeserialize(IOEnv.TRACES)
VARIABLE t
Init == t \in 1..Len(Obs)
Next == UNCHANGED t
Spec == Init /\ [][Next]_t
O == Obs[t]
In(x, s) == \E i \in 1..Len(s) : s[i] = x
RunOf(p) == CHOOSE r \in 1..Len(O.ends) : p <= O.ends[r] /\ (r = 1 \/ p > O.ends[r - 1])
LastOfRun(i) == i = Len(O.cols) \/ RunOf(O.cols[i + 1]) > RunOf(O.cols[i])
Increasing == \A i \in 1..(Len(O.cols) - 1) : O.cols[i] < O.cols[i + 1]
AtFreshBoundaries == \A i \in 1..Len(O.cols) : In(O.cols[i], O.bounds) /\ In(O.cols[i], O.computes) /\ O.cols[i] >= 1 /\ O.cols[i] <= O.ends[Len(O.ends)]
\* "at least one step apart (except a final remainder)": a final remainder is the last point of a run that is closer than one step to the
\* point before it; every other point is ordinary, and any two ordinary points are at least one step apart, the first of them at least one
\* step from the start.  (A point that follows a remainder of the previous run may be closer than one step to that remainder: the statement's
\* exception; a last-of-run point a full step after its predecessor is an ordinary point.)  Analysis.tla checks the same formula
\* (OrdinarySpacing) on every behaviour of the mechanism model.
PrevAt(i) == IF i = 1 THEN 0 ELSE O.cols[i - 1]
InLoop(i) == ~(LastOfRun(i) /\ O.cols[i] - PrevAt(i) < O.step)
Spacing == /\ \A i, k \in 1..Len(O.cols) : (i < k /\ InLoop(i) /\ InLoop(k)) => O.cols[k] - O.cols[i] >= O.step
           /\ \A i \in 1..Len(O.cols) : InLoop(i) => O.cols[i] >= O.step
EndsAtTotal == \A r \in 1..Len(O.ends) : In(O.ends[r], O.cols)
Clause == IF ~Increasing THEN "points are strictly increasing"
          ELSE IF ~AtFreshBoundaries THEN "every point is a batch boundary where results were freshly computed"
          ELSE IF ~Spacing THEN "points are at least one step apart (except a final remainder)"
          ELSE IF ~EndsAtTotal THEN "after every run the last point is at the traces processed so far"
          ELSE "ok"
Verdict == PrintT(<<"VERDICT", ToJson([t |-> t, clause |-> Clause])>>)
=============================================================================
