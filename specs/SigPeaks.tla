------------------------------ MODULE SigPeaks ------------------------------
(* Every signal up to MaxLen over Alphabet (states = signals).  (M): the scan of the chosen variant returns an      *)
(* acceptable peak set for every distance and height of the bound.                                                *)
EXTENDS Signal, Json
CONSTANTS MaxLen, MinLen, Alphabet, Ds, Hs, Variant
VARIABLE sig
Init == sig = <<>>
Next == Len(sig) < MaxLen /\ \E x \in Alphabet : sig' = Append(sig, x)
Spec == Init /\ [][Next]_sig
Scan(d, h) == IF Variant = "pinned" THEN ScanPinned(sig, d, h) ELSE ScanFixed(sig, d, h)
ScanIsValid == Len(sig) >= MinLen => \A d \in Ds, h \in Hs : ValidPeaks(sig, d, h, Scan(d, h))
\* consequences named by the statement: an isolated maximum, in particular the (first) highest one, is never lost
Highest(k) == \A j \in 1..Len(sig) : sig[j] <= sig[k + 1]
IsolatedKept == Len(sig) >= MinLen => \A d \in Ds, h \in Hs : \A c \in 0..(Len(sig) - 1) :
    (IsCand(sig, c, h) /\ \A o \in 0..(Len(sig) - 1) : (o # c /\ IsCand(sig, o, h)) => Abs(o - c) >= d) => \E i \in 1..Len(Scan(d, h)) : Scan(d, h)[i] = c
=============================================================================
