------------------------------ MODULE DistOps ------------------------------
(* Property layer (P) of every incremental distinguisher: the abstract state is a record of FLAT       *)
(* integer vectors (C order of the code's arrays), a pure function of the multiset... in fact of the   *)
(* sequence of accepted rows.  A row is [t |-> <<x_1..x_S>>, d |-> <<y_1..y_W>>].                      *)
(* A configuration c is a record                                                                       *)
(*   [kind, S, W, classes, lo, width, nb, tpl, ainv]                                                   *)
(* kind \in {"cpa","dpa","part","mia","tplb","tplm","tpld","ttest"}; classes = declared class values   *)
(* (a sequence, identified BY VALUE); lo/width/nb = uniform integer bin edges lo, lo+width, ...;       *)
(* tpl = integer templates (C x S), ainv = integer inverse covariance (S x S) for template matching.   *)
EXTENDS Num

\* ---- classes are identified by value ------------------------------------------------------------
Declared(c, v) == \E k \in 1..Len(c.classes) : c.classes[k] = v
ClassOf(c, v) == CHOOSE k \in 1..Len(c.classes) : c.classes[k] = v          \* 1-based; only if Declared

\* ---- histogram bin of a sample over uniform integer edges: right-most edge inclusive, outside discarded
InRange(c, x) == x >= c.lo /\ x <= c.lo + c.nb * c.width
BinOf(c, x) == IF x = c.lo + c.nb * c.width THEN c.nb ELSE (x - c.lo) \div c.width + 1   \* 1-based

NC(c) == Len(c.classes)

CpaC(c, rows) == LET N == Len(rows) IN
  [sx  |-> [s \in 1..c.S |-> SumTo(LAMBDA i : rows[i].t[s], N)],
   sxx |-> [s \in 1..c.S |-> SumTo(LAMBDA i : rows[i].t[s] * rows[i].t[s], N)],
   sy  |-> [w \in 1..c.W |-> SumTo(LAMBDA i : rows[i].d[w], N)],
   syy |-> [w \in 1..c.W |-> SumTo(LAMBDA i : rows[i].d[w] * rows[i].d[w], N)],
   sxy |-> [j \in 1..(c.W * c.S) |-> LET w == (j - 1) \div c.S + 1  s == ((j - 1) % c.S) + 1
                                     IN SumTo(LAMBDA i : rows[i].d[w] * rows[i].t[s], N)]]

DpaC(c, rows) == LET N == Len(rows) IN
  [st |-> [s \in 1..c.S |-> SumTo(LAMBDA i : rows[i].t[s], N)],
   s1 |-> [j \in 1..(c.W * c.S) |-> LET w == (j - 1) \div c.S + 1  s == ((j - 1) % c.S) + 1
                                    IN SumTo(LAMBDA i : rows[i].d[w] * rows[i].t[s], N)],
   n1 |-> [w \in 1..c.W |-> SumTo(LAMBDA i : rows[i].d[w], N)]]

\* sum, sq: shape (S, W, C);  cnt: shape (W, C)
PartC(c, rows) == LET N == Len(rows)  C == NC(c) IN
  [sum |-> [j \in 1..(c.S * c.W * C) |->
              LET k == ((j - 1) % C) + 1  w == (((j - 1) \div C) % c.W) + 1  s == (j - 1) \div (C * c.W) + 1
              IN SumTo(LAMBDA i : IF rows[i].d[w] = c.classes[k] THEN rows[i].t[s] ELSE 0, N)],
   sq  |-> [j \in 1..(c.S * c.W * C) |->
              LET k == ((j - 1) % C) + 1  w == (((j - 1) \div C) % c.W) + 1  s == (j - 1) \div (C * c.W) + 1
              IN SumTo(LAMBDA i : IF rows[i].d[w] = c.classes[k] THEN rows[i].t[s] * rows[i].t[s] ELSE 0, N)],
   cnt |-> [j \in 1..(c.W * C) |-> LET k == ((j - 1) % C) + 1  w == (j - 1) \div C + 1
              IN CountTo(LAMBDA i : rows[i].d[w] = c.classes[k], N)]]

\* hist: shape (S, B, C, W)
MiaC(c, rows) == LET N == Len(rows)  C == NC(c)  B == c.nb IN
  [hist |-> [j \in 1..(c.S * B * C * c.W) |->
              LET w == ((j - 1) % c.W) + 1  k == (((j - 1) \div c.W) % C) + 1
                  b == (((j - 1) \div (c.W * C)) % B) + 1  s == (j - 1) \div (c.W * C * B) + 1
              IN CountTo(LAMBDA i : /\ rows[i].d[w] = c.classes[k] /\ InRange(c, rows[i].t[s])
                                    /\ BinOf(c, rows[i].t[s]) = b, N)]]

\* exi: (C, S); exxi: (C, S, S); cnt: (C); the class is the value of the single data word
TplbC(c, rows) == LET N == Len(rows)  C == NC(c) IN
  [exi  |-> [j \in 1..(C * c.S) |-> LET s == ((j - 1) % c.S) + 1  k == (j - 1) \div c.S + 1
               IN SumTo(LAMBDA i : IF rows[i].d[1] = c.classes[k] THEN rows[i].t[s] ELSE 0, N)],
   exxi |-> [j \in 1..(C * c.S * c.S) |->
               LET b == ((j - 1) % c.S) + 1  a == (((j - 1) \div c.S) % c.S) + 1  k == (j - 1) \div (c.S * c.S) + 1
               IN SumTo(LAMBDA i : IF rows[i].d[1] = c.classes[k] THEN rows[i].t[a] * rows[i].t[b] ELSE 0, N)],
   cnt  |-> [k \in 1..C |-> CountTo(LAMBDA i : rows[i].d[1] = c.classes[k], N)]]

\* squared Mahalanobis form (t - mu)' A (t - mu), integer templates / matrix
Maha(c, t, k) == SumTo(LAMBDA a : SumTo(LAMBDA b : (t[a] - c.tpl[k][a]) * c.ainv[a][b] * (t[b] - c.tpl[k][b]), c.S), c.S)
\* static template attack: one score per class; the data are not used
TplmC(c, rows) == [sc |-> [k \in 1..NC(c) |-> SumTo(LAMBDA i : Maha(c, rows[i].t, k), Len(rows))]]
\* template DPA: one score per hypothesis column g; the template is the one of the class whose VALUE is d[g]
TpldC(c, rows) == [sc |-> [g \in 1..c.W |-> SumTo(LAMBDA i : Maha(c, rows[i].t, ClassOf(c, rows[i].d[g])), Len(rows))]]

TtestC(c, rows) == LET N == Len(rows) IN
  [sum |-> [s \in 1..c.S |-> SumTo(LAMBDA i : rows[i].t[s], N)],
   sq  |-> [s \in 1..c.S |-> SumTo(LAMBDA i : rows[i].t[s] * rows[i].t[s], N)]]

Contribution(c, rows) ==
  CASE c.kind = "cpa"  -> CpaC(c, rows)
    [] c.kind = "dpa"  -> DpaC(c, rows)
    [] c.kind = "part" -> PartC(c, rows)
    [] c.kind = "mia"  -> MiaC(c, rows)
    [] c.kind = "tplb" -> TplbC(c, rows)
    [] c.kind = "tplm" -> TplmC(c, rows)
    [] c.kind = "tpld" -> TpldC(c, rows)
    [] c.kind = "ttest" -> TtestC(c, rows)

Zero(c) == Contribution(c, <<>>)
Plus(a, b) == RecPlus(a, b)

\* ---- results as exact certificates, computed from the abstract state (sufficient statistics) -----
\* cpa: per (w, s) the triple <<num, dx, dy>> with r = num / sqrt(dx * dy), NaN iff dx * dy = 0
CpaR(c, a, n) == [j \in 1..(c.W * c.S) |-> LET w == (j - 1) \div c.S + 1  s == ((j - 1) % c.S) + 1 IN
                    <<n * a.sxy[j] - a.sx[s] * a.sy[w], n * a.sxx[s] - a.sx[s] * a.sx[s], n * a.syy[w] - a.sy[w] * a.sy[w]>>]
\* dpa: per (w, s) <<sum1, n1, sum0, n0>>: mean of bit-1 traces minus mean of bit-0 traces, NaN iff a class is empty
DpaR(c, a, n) == [j \in 1..(c.W * c.S) |-> LET w == (j - 1) \div c.S + 1  s == ((j - 1) % c.S) + 1 IN
                    <<a.s1[j], a.n1[w], a.st[s] - a.s1[j], n - a.n1[w]>>]
\* t-test accumulator: mean = sum / n, var = (n * sq - sum^2) / n^2
TtestR(c, a, n) == [s \in 1..c.S |-> <<a.sum[s], n * a.sq[s] - a.sum[s] * a.sum[s], n>>]
\* template matching: 10 - sc / (n * S)
TplmR(c, a, n) == [k \in DOMAIN a.sc |-> <<a.sc[k], n * c.S>>]

\* partitioned: per (w, s) the non-empty classes as <<count, sum, sum of squares>> in class order
PartCell(c, a, w, s, k) == LET C == NC(c) IN
   <<a.cnt[(w - 1) * C + k], a.sum[((s - 1) * c.W + (w - 1)) * C + k], a.sq[((s - 1) * c.W + (w - 1)) * C + k]>>
PartTerms(c, a, w, s) == LET C == NC(c)
                             all == [k \in 1..C |-> PartCell(c, a, w, s, k)]
                         IN SelectSeq(all, LAMBDA x : x[1] > 0)
=============================================================================
