------------------------------- MODULE SquareK -------------------------------
(* C11: in which floating-point type does a kernel square a sample?  For an integer-valued sample x stored in  *)
(* float32, the IEEE product x*x computed IN float32 is RoundMant(x*x, 24); computed after conversion to the   *)
(* requested precision float64 it is RoundMant(x*x, 53) = x*x for |x| < 2^26.  The two kernels must add the same *)
(* square: "pinned" kernel 1 squared in the trace type (refuted here at 4097), "fixed" converts first.         *)
EXTENDS Num
CONSTANTS Variant, Lo, Hi
VARIABLE x
Init == x \in Lo..Hi
Next == UNCHANGED x
Spec == Init /\ [][Next]_x
SquareKernel1 == IF Variant = "pinned" THEN RoundMant(x * x, 24) ELSE RoundMant(x * x, 53)
SquareKernel2 == RoundMant(x * x, 53)
KernelsAddTheSameSquare == SquareKernel1 = SquareKernel2 /\ SquareKernel2 = x * x
=============================================================================
