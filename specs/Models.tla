------------------------------- MODULE Models -------------------------------
(* C15: leakage models and discriminants by their definitions.                                                  *)
(* Arrays are a flat sequence in C order plus a shape (sequence of dimension lengths); axis is 0-based.            *)
EXTENDS Num

RECURSIVE PopCount(_)
PopCount(x) == IF x = 0 THEN 0 ELSE (x % 2) + PopCount(x \div 2)
Bit(x, b) == (x \div Pow2(b)) % 2
\* wide words as little-endian byte limbs
PopLimbs(l) == SumTo(LAMBDA i : PopCount(l[i]), Len(l))

Prod(s) == LET f[i \in 0..Len(s)] == IF i = 0 THEN 1 ELSE f[i - 1] * s[i] IN f[Len(s)]
\* multi-index (0-based components) of flat position i (0-based) in C order
Stride(shape, a) == Prod(SubSeq(shape, a + 1, Len(shape)))                     \* a is 1-based axis position
Unflat(i, shape) == [a \in 1..Len(shape) |-> (i \div Stride(shape, a)) % shape[a]]
Flat(idx, shape) == SumTo(LAMBDA a : idx[a] * Stride(shape, a), Len(shape))

\* HammingWeight(nb_words = k) along axis (0-based): groups of k consecutive words, incomplete tail group dropped
GroupShape(shape, axis, k) == [shape EXCEPT ![axis + 1] = shape[axis + 1] \div k]
HWGroup(flat, shape, axis, k) ==
   LET gs == GroupShape(shape, axis, k) IN
   [i \in 1..Prod(gs) |-> LET idx == Unflat(i - 1, gs) IN
        SumTo(LAMBDA j : PopCount(flat[Flat([idx EXCEPT ![axis + 1] = idx[axis + 1] * k + (j - 1)], shape) + 1]), k)]

\* discriminants over Int u {NaN}; NaN is the sentinel 99; reduction along axis; NaN entries ignored
NaNv == 99
RedShape(shape, axis) == [a \in 1..(Len(shape) - 1) |-> IF a <= axis THEN shape[a] ELSE shape[a + 1]]
Lane(flat, shape, axis, i) ==      \* the entries reduced into output position i (0-based), as a sequence
   LET rs == RedShape(shape, axis)  idx == Unflat(i, rs) IN
   [j \in 1..shape[axis + 1] |-> flat[Flat([a \in 1..Len(shape) |-> IF a < axis + 1 THEN idx[a] ELSE IF a = axis + 1 THEN j - 1 ELSE idx[a - 1]], shape) + 1]]
Valid(l) == SelectSeq(l, LAMBDA x : x # NaNv)
MaxOf(l) == CHOOSE m \in Range(l) : \A x \in Range(l) : x <= m
\* the two infinities are the sentinels 90 and -90 (every finite value used is smaller in magnitude, so the order-based reductions need no
\* special case); IEEE sums: anything + inf = inf, inf + (-inf) = NaN
PInf == 90
NInf == -90
HasP(v) == \E i \in 1..Len(v) : v[i] = PInf
HasN(v) == \E i \in 1..Len(v) : v[i] = NInf
Disc(name, l) == LET v == Valid(l) IN
   CASE name = "nansum" -> (IF HasP(v) /\ HasN(v) THEN NaNv ELSE IF HasP(v) THEN PInf ELSE IF HasN(v) THEN NInf ELSE SumSeq(v))
     [] name = "abssum" -> (IF HasP(v) \/ HasN(v) THEN PInf ELSE SumSeq([i \in 1..Len(v) |-> Abs(v[i])]))
     [] v = <<>> -> NaNv
     [] name = "nanmax" -> MaxOf(v)
     [] name = "maxabs" -> MaxOf([i \in 1..Len(v) |-> Abs(v[i])])
     [] name = "opposite_min" -> MaxOf([i \in 1..Len(v) |-> -v[i]])
Reduce(name, flat, shape, axis) == [i \in 1..Prod(RedShape(shape, axis)) |-> Disc(name, Lane(flat, shape, axis, i - 1))]
=============================================================================
