---------------------------- MODULE PartitionsMC ----------------------------
(* Exhaustive: every first-batch maximum 0..300 (and minimum -1..0).  The repaired threshold rule satisfies the *)
(* property for every accepted maximum; the pinned rule is refuted at 0, 9 and 64.                             *)
EXTENDS Partitions, Json
CONSTANTS Variant, Gen
VARIABLES m, mn
Init == m \in 0..300 /\ mn \in {-1, 0}
Next == UNCHANGED <<m, mn>>
Spec == Init /\ [][Next]_<<m, mn>>
AutoContainsFirstBatch == ~AutoRefused(m, mn) => ContainsMax(Variant, m) /\ Smallest(Variant, m)
RefusedOutside == AutoRefused(m, mn) <=> (m > 255 \/ mn < 0)
Emit == Gen => PrintT(<<"EMIT", ToJson([m |-> m, mn |-> mn, refused |-> AutoRefused(m, mn), size |-> IF AutoRefused(m, mn) THEN 0 ELSE AutoSizeK(Variant, m)])>>)
=============================================================================
