------------------------------ MODULE TplCases ------------------------------
(* Expected templates / pooled covariance / pseudo-inverse / matching scores for driver-proposed cases:      *)
(* c = [S, W, classes, variant], build = building rows, match = matching rows.                              *)
EXTENDS Tpl, Json, IOUtils
Cases == JsonDeserialize(IOEnv.CASES)
VARIABLE case
Init == case \in 1..Len(Cases)
Next == UNCHANGED case
Spec == Init /\ [][Next]_case
C == Cases[case].c
B == Cases[case].build
M == Cases[case].match
T == Templates(B, C.classes, C.S)
P == Pooled(B, C.classes, C.S)
A == PInv(P, C.S)
Full == AllClassesHaveTwo(B, C.classes)
\* (M) lemmas
PInvLemma == IsPInv(A, P, C.S) /\ PSD(P, C.S)
KMatchesP == /\ TemplateK(B, C.classes, C.S, C.variant) = T
             /\ PooledK(B, C.classes, C.S) = P
\* a trace equal to a template is best matched by that template (static attack, single matching trace, full-rank A)
Emit == PrintT(<<"EMIT", ToJson([case |-> case, res |->
   [tpl |-> T, full |-> Full,
    pooled |-> P, pinv |-> A,
    static |-> IF Len(M) > 0 THEN [k \in 1..Len(C.classes) |-> ScoreStatic(M, T, A, C.S, k)] ELSE <<>>,
    dpa |-> IF Len(M) > 0 THEN [g \in 1..C.W |-> ScoreDpa(M, T, A, C.S, C.classes, g)] ELSE <<>>]])>>)
=============================================================================
