------------------------------ MODULE TplCases ------------------------------
(* Expected templates / pooled covariance / pseudo-inverse / matching scores for driver-proposed cases:      *)
(* c = [S, W, classes, variant], build = building rows, match = matching rows.                              *)
EXTENDS Tpl, Json, IOUtils
Cases == JsonDeserialize(IOEnv.CASES)
VARIABLE case
Init == case \in 1..Len(Cases)
Next == UNCHANGED case
Spec == Init /\ [][Next]_case
C == Cases[case].c
B == Cases[case].build
M == Cases[case].match
\* rep: the building set is presented rep times (default 1).  Class means do not change; the unbiased covariance of a class with n traces and
\* scatter matrix Sc = sum (x - m)(x - m)^T becomes rep Sc / (rep n - 1)  (lemma BuildReplication: equal to the definition applied to the
\* literally repeated rows, checked by TLC for 2 and 3 repetitions) - this is how profiles built from thousands of traces are specified.
Rp == IF "rep" \in DOMAIN Cases[case] THEN Cases[case].rep ELSE 1
Scatter(rs, a, b) == LET n == Len(rs) IN IF n = 0 THEN RZero ELSE Rat(n * SumAB(rs, a, b) - SumA(rs, a) * SumA(rs, b), n)
PooledRep(K) == [a \in 1..C.S |-> [b \in 1..C.S |->
     RDiv(RSumTo(LAMBDA k : LET rs == ClassRows(B, C.classes[k]) IN
                            IF K * Len(rs) < 2 THEN RZero ELSE RDiv(RMul(RInt(K), Scatter(rs, a, b)), RInt(K * Len(rs) - 1)), Len(C.classes)), RInt(Len(C.classes)))]]
RepRows(rows, K) == LET f[k \in 0..K] == IF k = 0 THEN <<>> ELSE f[k - 1] \o rows IN f[K]
BuildReplication == /\ PooledRep(1) = Pooled(B, C.classes, C.S)
                    /\ \A K \in {2, 3} : /\ Pooled(RepRows(B, K), C.classes, C.S) = PooledRep(K)
                                          /\ Templates(RepRows(B, K), C.classes, C.S) = Templates(B, C.classes, C.S)
T == Templates(B, C.classes, C.S)
P == PooledRep(Rp)
A == PInv(P, C.S)
Full == AllClassesHaveTwo(B, C.classes)
\* (M) lemmas
PInvLemma == IsPInv(A, P, C.S) /\ PSD(P, C.S)
KMatchesP == /\ TemplateK(B, C.classes, C.S, C.variant) = T
             /\ (Rp = 1 => PooledK(B, C.classes, C.S) = P)
\* (M) rescaling one sample of every trace (building and matching) by a constant c rescales the profile accordingly - pooled covariance entries by
\* c for every index equal to that sample - and leaves every matching score unchanged when the pooled covariance has full rank (the Mahalanobis
\* distance does not depend on the unit a sample is measured in).  Checked with c = 2 on sample 1; the harness uses it with c = 4096 to present
\* profiles whose samples differ by orders of magnitude.
ScaleRows(rows, c) == [i \in 1..Len(rows) |-> [rows[i] EXCEPT !.t = [a \in 1..C.S |-> IF a = 1 THEN c * rows[i].t[a] ELSE rows[i].t[a]]]]
FullRank == IF C.S = 1 THEN P[1][1][1] # 0 ELSE RSub(RMul(P[1][1], P[2][2]), RMul(P[1][2], P[2][1]))[1] # 0
ScalingLemma == (Rp = 1 /\ FullRank /\ Len(M) > 0) =>
    LET B2 == ScaleRows(B, 2)  M2 == ScaleRows(M, 2)
        T2 == Templates(B2, C.classes, C.S)  P2 == Pooled(B2, C.classes, C.S)  A2 == PInv(P2, C.S)
        f(a) == IF a = 1 THEN 2 ELSE 1
    IN /\ \A a, b \in 1..C.S : P2[a][b] = RMul(RInt(f(a) * f(b)), P[a][b])
       /\ \A k \in 1..Len(C.classes) : ScoreStatic(M2, T2, A2, C.S, k) = ScoreStatic(M, T, A, C.S, k)
       /\ \A g \in 1..C.W : ScoreDpa(M2, T2, A2, C.S, C.classes, g) = ScoreDpa(M, T, A, C.S, C.classes, g)
\* a trace equal to a template is best matched by that template (static attack, single matching trace, full-rank A)
Emit == PrintT(<<"EMIT", ToJson([case |-> case, res |->
   [tpl |-> T, full |-> Full,
    pooled |-> P, pinv |-> A,
    static |-> IF Len(M) > 0 THEN [k \in 1..Len(C.classes) |-> ScoreStatic(M, T, A, C.S, k)] ELSE <<>>,
    dpa |-> IF Len(M) > 0 THEN [g \in 1..C.W |-> ScoreDpa(M, T, A, C.S, C.classes, g)] ELSE <<>>]])>>)
=============================================================================
