----------------------------- MODULE Partitions -----------------------------
(* C12: how a class set is obtained and how a value is mapped to its class.                                *)
(* P: Lut(classes, v) = position of the class whose declared VALUE is v, or "undeclared" (0);              *)
(*    an automatically derived class set contains every value present in the first batch.                  *)
(* K: _PartitionnedDistinguisherBaseMixin._initialize: refuse max > 255 or min < 0; loop over the sizes     *)
(*    [0, 9, 64, 256] and take arange(r) for the first r the comparison selects; _build_lut: a table filled  *)
(*    with -1 then lut[classes[i]] = i (a later duplicate wins); consumers test the looked-up index for -1.  *)
EXTENDS Num

Sizes == <<0, 9, 64, 256>>
\* K: the threshold loop; variant "pinned" compares with <=, "fixed" with <  (falls through to the last size)
Picks(variant, m, r) == IF variant = "pinned" THEN m <= r ELSE m < r
AutoSizeK(variant, m) == IF \E i \in 1..4 : Picks(variant, m, Sizes[i])
                         THEN Sizes[CHOOSE i \in 1..4 : Picks(variant, m, Sizes[i]) /\ \A j \in 1..(i - 1) : ~Picks(variant, m, Sizes[j])]
                         ELSE Sizes[4]
AutoRefused(mx, mn) == mx > 255 \/ mn < 0
\* P: the derived set {0..size-1} contains the first-batch maximum (hence every value of the first batch, all >= 0)
ContainsMax(variant, m) == m < AutoSizeK(variant, m)
\* documented sizes: the smallest of 9 / 64 / 256 that contains the maximum
Smallest(variant, m) == \A s \in {9, 64, 256} : m < s => AutoSizeK(variant, m) <= s

\* value -> class position (1-based), 0 = undeclared;  K's table semantics: the LAST declaration of a value wins
LutK(classes, v) == IF \E i \in 1..Len(classes) : classes[i] = v
                    THEN CHOOSE i \in 1..Len(classes) : classes[i] = v /\ \A j \in (i + 1)..Len(classes) : classes[j] # v
                    ELSE 0
LutP(classes, v) == IF \E i \in 1..Len(classes) : classes[i] = v THEN CHOOSE i \in 1..Len(classes) : classes[i] = v ELSE 0
NoDuplicates(classes) == \A i, j \in 1..Len(classes) : i # j => classes[i] # classes[j]
=============================================================================
