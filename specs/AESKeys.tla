------------------------------- MODULE AESKeys -------------------------------
(* C10 (AES): key expansion from ANY window of Nk consecutive schedule columns, forward or backward.                      *)
(* P: the true schedule W (module AES, FIPS recurrence); key_expansion(window at col_in, col_in, col_out) must return      *)
(*    W[col_in .. col_out - 1] when col_in < col_out, and W[col_out .. col_in + Nk - 1] otherwise.                         *)
(* K: _expand_forward / _expand_backward as the code writes them: the first Nk loop indices copy the window, then            *)
(*    col % Nk = 0 -> SubWord(RotWord) xor Rcon[int(col / Nk) - 1] (forward) / Rcon[int(col / Nk)] (backward, on col + Nk);   *)
(*    Nk = 8 and col % 4 = 0 -> SubWord; else plain xor.  (Rcon table: RCON[j] = x^j, j = 0..)                               *)
(* One state per (key, col_in, col_out): exhaustive over all windows and targets for the proposed keys.                     *)
EXTENDS AES, Json, IOUtils
Input == JsonDeserialize(IOEnv.CASES)
Keys == Input.keys                 \* master keys (16 / 24 / 32 bytes)
Recorded == Input.recorded         \* per key: outputs of the real key_expansion: [a, b, out (bytes)]
CONSTANTS MaxCol, AStep, Mode        \* "model": K against P for every triple;  "trace": recorded outputs against P
VARIABLES k, a, b
vars == <<k, a, b>>
NkK(i) == Nk(Keys[i])
Total(i) == 4 * (NrOf(Keys[i]) + 1)
\* (the target column is chosen by a transition so that TLC's workers share the triples)
Init == IF Mode = "model" THEN k \in 1..Len(Keys) /\ a \in {x \in 0..MaxCol : x % AStep = 0} /\ b = -1 ELSE k \in 1..Len(Keys) /\ a = 0 /\ b = 0
Next == Mode = "model" /\ b = -1 /\ b' \in 0..MaxCol /\ UNCHANGED <<k, a>>
Spec == Init /\ [][Next]_vars
InDomain == Mode = "model" /\ b >= 0 /\ a <= Total(k) - NkK(k) /\ b <= Total(k)

Window(sched, nk, ca, cb) == IF ca < cb THEN SubSeq(sched, ca + 1, cb) ELSE SubSeq(sched, cb + 1, ca + nk)
FlatW(ws) == LET f[i \in 0..Len(ws)] == IF i = 0 THEN <<>> ELSE f[i - 1] \o ws[i] IN f[Len(ws)]

\* ---- K ------------------------------------------------------------------------------------------------------------------
RconK(j) == <<RconByte(j + 1), 0, 0, 0>>                    \* code table RCON[j] = x^j
\* forward: acc = columns col_in .. (col_in + Len(acc) - 1)
RECURSIVE FwdK(_, _, _, _)
FwdK(nk, ca, cb, acc) == LET col == ca + Len(acc) IN
    IF col >= cb THEN acc
    ELSE LET prev == acc[Len(acc)]  back == acc[Len(acc) + 1 - nk]
             nw == IF col % nk = 0 THEN XorSeq(XorSeq(SubWord(RotWord(prev)), RconK((col \div nk) - 1)), back)
                   ELSE IF nk = 8 /\ col % 4 = 0 THEN XorSeq(SubWord(prev), back)
                   ELSE XorSeq(prev, back)
         IN FwdK(nk, ca, cb, Append(acc, nw))
ExpandForwardK(window, nk, ca, cb) == LET seed == SubSeq(window, 1, IF cb - ca < nk THEN cb - ca ELSE nk) IN FwdK(nk, ca, cb, seed)
\* backward: acc = columns lo .. (col_in + nk - 1), extended downwards to col_out
RECURSIVE BwdK(_, _, _, _)
BwdK(nk, lo, cb, acc) == IF lo <= cb THEN acc
    ELSE LET col == lo - 1  up == acc[nk]  upm1 == acc[nk - 1]
             nw == IF col % nk = 0 THEN XorSeq(XorSeq(up, SubWord(RotWord(upm1))), RconK(col \div nk))
                   ELSE IF nk = 8 /\ col % 4 = 0 THEN XorSeq(SubWord(upm1), up)
                   ELSE XorSeq(up, upm1)
         IN BwdK(nk, col, cb, <<nw>> \o acc)
ExpandBackwardK(window, nk, ca, cb) == BwdK(nk, ca, cb, window)
KeyExpansionK(window, nk, ca, cb) == IF ca < cb THEN ExpandForwardK(window, nk, ca, cb) ELSE ExpandBackwardK(window, nk, ca, cb)

\* (M) the code-shaped loops return exactly the window of the true schedule, for every window and target
KMatchesP == InDomain => LET sc == Schedule(Keys[k])  nk == NkK(k) IN
                KeyExpansionK(SubSeq(sc, a + 1, a + nk), nk, a, b) = Window(sc, nk, a, b)
\* (V) recorded outputs of the real function
\* Recorded[k] = the records of key k; the schedule is computed once per key; the verdict lists the indexes of the rejected records
Verdict == Mode = "trace" => LET sc == Schedule(Keys[k])  nk == Nk(Keys[k])
                                 bad == {i \in 1..Len(Recorded[k]) : FlatW(Window(sc, nk, Recorded[k][i].a, Recorded[k][i].b)) # Recorded[k][i].out}
                             IN PrintT(<<"VERDICT", ToJson([k |-> k, bad |-> bad])>>)
=============================================================================
