SPECIFICATION Spec
CONSTANTS Variant = "pinned"
          MaxCalls = 4
          MaxK = 2
INVARIANT RejectedLeavesNoTrace
INVARIANT AcceptedAccumulates
INVARIANT ValidCallAccepted
INVARIANT FaultyCallRaises
INVARIANT CountEqualsAccumulated
CHECK_DEADLOCK FALSE
