#!/bin/sh
# Offline setup: nothing is built; parse every specification module and run the binding self-test.
set -e
cd "$(dirname "$0")"
fail=0
for f in specs/*.tla; do
  m=$(basename "$f" .tla)
  out=$(cd specs && java -cp /opt/veriftools/tla/tla2tools.jar:/opt/veriftools/tla/CommunityModules-deps.jar tla2sany.SANY "$m.tla" 2>&1) || true
  if echo "$out" | grep -q -e "Fatal" -e "\*\*\* Errors" -e "Parse Error" -e "Semantic errors"; then
    echo "SANY FAILED: $m"; echo "$out" | tail -20; fail=1
  fi
done
[ $fail = 0 ] || exit 1
/venv/bin/python harness/selftest.py
echo "setup ok"
